#!/bin/sh
# Offline setup: make sure hypothesis (and, best effort, atheris) are importable by /venv/bin/python.
cd "$(dirname "$0")" || exit 1
PY=/venv/bin/python
WH=/opt/veriftools/wheels
mkdir -p .deps
if ! $PY -c "import hypothesis" 2>/dev/null; then
    PIP_NO_INDEX=1 $PY -m pip install --no-index --find-links $WH --target .deps hypothesis || exit 1
fi
if ! PYTHONPATH=.deps $PY -c "import atheris" 2>/dev/null; then
    PIP_NO_INDEX=1 $PY -m pip install --no-index --find-links $WH --target .deps atheris >/dev/null 2>&1 \
        || echo "setup: atheris not installable; thorough tiers fall back to Hypothesis only"
fi
PYTHONPATH=.deps $PY -c "import hypothesis, amaranth, amaranth_soc; print('setup ok: hypothesis', hypothesis.__version__, 'amaranth', amaranth.__version__)"
