#!/venv/bin/python
"""Development-time measurement: which lines of the files a property is anchored in are executed
by its generated cases. Runs N Hypothesis examples of each property's strategy through its check
under coverage.py (single process) and writes sensitivity/anchor_coverage.json.

    /venv/bin/python tools/anchor_cov.py [N] [ID ...]
"""
import os, sys, json, re

HERE = os.path.dirname(os.path.dirname(os.path.abspath(__file__)))
REPO = os.environ.get("VERIF_REPO", "/repo")
sys.path.insert(0, REPO); sys.path.insert(0, HERE)
import coverage


def main(argv):
    n = int(argv[0]) if argv and argv[0].isdigit() else 40
    ids = [a for a in argv if a.startswith("C")]
    props = [json.loads(l) for l in open(os.path.join(HERE, "properties.jsonl"))]
    out = {}
    from hypothesis import given, settings, HealthCheck, seed
    import importlib
    from vlib.common import Stats, Violation
    for p in props:
        pid = p["id"]
        if ids and pid not in ids:
            continue
        files = [os.path.join(REPO, f) for f in p["anchors"]["files"]]
        cov = coverage.Coverage(include=files, branch=False, data_file=None)
        cov.start()
        mod = importlib.import_module(f"vlib.props.{pid}")

        @seed(1)
        @settings(max_examples=n, database=None, deadline=None, suppress_health_check=list(HealthCheck))
        @given(mod.strategy("quick"))
        def t(spec):
            st = Stats(); st.begin()
            try:
                mod.check(spec, st)
            except Violation:
                pass
        t()
        if hasattr(mod, "pinned"):
            for _, spec in mod.pinned():
                st = Stats(); st.begin()
                try:
                    mod.check(spec, st)
                except Violation:
                    pass
        cov.stop()
        res = {}
        for f in files:
            try:
                _, stmts, _, missing, _ = cov.analysis2(f)
            except Exception:
                continue
            res[os.path.relpath(f, REPO)] = {"statements": len(stmts), "executed": len(stmts) - len(missing)}
        # anchored mechanisms: line ranges quoted in the property ("file.py:a-b")
        mech = []
        for m in p["anchors"].get("mechanism", []):
            for fname, a, b in re.findall(r"(amaranth_soc/[\w/]+\.py):(\d+)-(\d+)", m.get("where", "")):
                f = os.path.join(REPO, fname)
                try:
                    _, stmts, _, missing, _ = cov.analysis2(f)
                except Exception:
                    continue
                rng = [l for l in stmts if int(a) <= l <= int(b)]
                hit = [l for l in rng if l not in missing]
                mech.append({"mechanism": m["name"][:80], "where": f"{fname}:{a}-{b}", "statements": len(rng), "executed": len(hit)})
        out[pid] = {"examples": n, "files": res, "mechanisms": mech}
        tot = sum(v["statements"] for v in res.values()); ex = sum(v["executed"] for v in res.values())
        print(pid, f"{ex}/{tot} statements of anchored files executed;",
              "mechanism ranges:", ", ".join(f"{m['executed']}/{m['statements']}" for m in mech), flush=True)
    os.makedirs(os.path.join(HERE, "sensitivity"), exist_ok=True)
    path = os.path.join(HERE, "sensitivity", "anchor_coverage.json")
    old = json.load(open(path)) if os.path.exists(path) else {}
    old.update(out)
    json.dump(old, open(path, "w"), indent=1, sort_keys=True)


if __name__ == "__main__":
    main(sys.argv[1:])
