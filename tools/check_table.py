#!/usr/bin/env python3
"""Print the markdown table of DESIGN.md section 0.1b from the committed evidence files and the modules' BUDGET/ESSENTIAL."""
import json, os, re, sys
HERE = os.path.dirname(os.path.dirname(os.path.abspath(__file__)))
rows = []
for n in range(1, 21):
    pid = f"C{n:02d}"
    src = open(os.path.join(HERE, "vlib", "props", pid + ".py")).read()
    m = re.search(r'BUDGET = \{"quick": \((\d+), (\d+)\), "thorough": \((\d+), (\d+)\)\}', src)
    ess = re.search(r"ESSENTIAL = (\[.*?\])\n[A-Z]", src, re.S)
    ness = len(re.findall(r'"[^"]+"', ess.group(1))) if ess else 0
    if pid == "C19":
        ness = "12 classes + " + str(len(re.findall(r'"[^"]+"', src[src.index("ESSENTIAL ="):src.index("ASSUMPTIONS")])) - 1)
    ev = json.load(open(os.path.join(HERE, "evidence", pid + ".json")))
    c = ev["coverage"]
    parts = ", ".join(c.get("exhaustive_parts", {}).keys()) if isinstance(c.get("exhaustive_parts"), dict) else "-"
    pinned = c["classes"].get("pinned_cases", "")
    rows.append(f"| {pid} | {m.group(1)}x{m.group(2)} | {m.group(3)}x{m.group(4)} | {parts or '-'} | {c['evaluations']} | {c['distinct_nontrivial']} | {ness} | {ev['wall_s']:.0f} s |")
print("| id | quick workers x cases | thorough | exhaustive sub-domain (quick) | evaluations | distinct non-trivial | essential classes | wall |")
print("|---|---|---|---|---|---|---|---|")
print("\n".join(rows))
