#!/usr/bin/env python3
"""Regenerate MANIFEST.json from tools/manifest_src.py (keeps it schema-valid at all times)."""
import json, os, sys
HERE = os.path.dirname(os.path.dirname(os.path.abspath(__file__)))
sys.path.insert(0, os.path.join(HERE, "tools"))
import manifest_src as src

ids = [json.loads(l)["id"] for l in open(os.path.join(HERE, "properties.jsonl"))]
checks, na = [], []
for pid in ids:
    c = src.CHECKS.get(pid)
    if c is None or not os.path.exists(os.path.join(HERE, "vlib", "props", f"{pid}.py")):
        na.append({"property_id": pid, "reason": src.NOT_APPLICABLE.get(pid, "check not built yet in this round; see DESIGN.md section 4 for the planned generator and oracle")})
        continue
    checks.append({
        "property_id": pid,
        "quick_cmd": f"./vcheck {pid} quick",
        "thorough_cmd": f"./vcheck {pid} thorough",
        "evidence_file": f"/verif/evidence/{pid}.json",
        "replay_cmd_template": "./vcheck --replay {path}",
        "engine": "vlib-runner",
        "level_claimed": {"category": "exploration", "text": c["text"], "design_ref": c["design_ref"]},
        "level_note": c["note"],
        "technique": c["technique"],
    })
m = {
    "version": 1,
    "setup_cmd": "./setup.sh",
    "hooks": {
        "guard": "AMARANTH_SOC_VERIF",
        "enable": "no hooks: every observation is made through public attributes, return values, exceptions and simulator reads of signals reachable from public objects; the guard variable is read by nothing",
        "baseline_off_cmd": "cd /repo && /venv/bin/python -m pytest -q -p no:cacheprovider",
        "source_commits": [],
        "add_only": True,
    },
    "engines": [{
        "name": "vlib-runner", "path": "/verif/vlib/runner.py",
        "serves_properties": [c["property_id"] for c in checks],
        "kind_free_text": "Hypothesis-driven property-based testing (16 sharded workers, seed from VERIF_SEED), explicit reference-model / differential oracles, cycle-accurate Amaranth Python simulation of the real generated hardware, violation bucketing + Hypothesis shrinking to a JSON replay file",
    }],
    "checks": checks,
    "notes": src.NOTES,
}
if na:
    m["not_applicable"] = na
with open(os.path.join(HERE, "MANIFEST.json"), "w") as f:
    json.dump(m, f, indent=1)
    f.write("\n")
try:
    import jsonschema
    jsonschema.validate(m, json.load(open("/root/.vp/MANIFEST.schema.json")))
    print("MANIFEST.json valid;", len(checks), "checks,", len(na), "not_applicable")
except ImportError:
    print("MANIFEST.json written (jsonschema not available to validate);", len(checks), "checks")
