#!/bin/sh
# import every agent output under /tmp/wtout/<ID>/ that is not yet in seeded/
cd "$(dirname "$0")/.."
for id in "$@"; do for k in 1 2; do
  [ -f /tmp/wtout/$id/patch$k.diff ] || continue
  [ -f seeded/$id/$k/meta.json ] && continue
  ./tools/import_seed.sh $id $k > /dev/null
  python3 - <<PY
import json
a=json.load(open('seeded/$id/$k/agent_meta.json')); c=json.load(open('seeded/$id/$k/confirm.json'))
m={"property":"$id","summary":a.get("summary"),"needs":a.get("needs"),"files":a.get("files"),"confirmed_by":"tools/mutants.py confirm (scratch copy of /repo HEAD: demo passes without the change; with it the unedited suite reports 290 passed and the demo fails)","confirm":c}
json.dump(m,open('seeded/$id/$k/meta.json','w'),indent=1)
print('$id/$k confirmed=',c['confirmed'])
PY
  rm seeded/$id/$k/agent_meta.json
done; done
