#!/bin/sh
# tools/import_equiv.sh <area>... : import behaviour-preserving refactors from /tmp/wtout3/<area>/ into equivalent/<area>/<k>/
cd "$(dirname "$0")/.."
for a in "$@"; do for k in 1 2 3 4; do
  [ -f /tmp/wtout3/$a/patch$k.diff ] || continue
  D=equivalent/$a/$k; mkdir -p $D
  cp /tmp/wtout3/$a/patch$k.diff $D/patch.diff
  cp /tmp/wtout3/$a/meta$k.json $D/meta.json
  # the patch must apply and keep the suite green
  python3 - <<PY
import sys, json, shutil
sys.path.insert(0, 'tools')
import mutants
d = mutants.scratch_copy('$D/patch.diff')
ok, tail = mutants.run_suite(d)
shutil.rmtree(d)
m = json.load(open('$D/meta.json')); m['suite_with_change'] = {'passes': ok, 'tail': tail}
json.dump(m, open('$D/meta.json', 'w'), indent=1)
print('$a/$k suite:', ok, tail)
PY
done; done
