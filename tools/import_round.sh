#!/bin/sh
# tools/import_round.sh <srcdir> <offset> <ID>... : import <srcdir>/<ID>/{patchK.diff,demoK.py,metaK.json} as seeded/<ID>/<K+offset>
cd "$(dirname "$0")/.."
SRC=$1; OFF=$2; shift; shift
for id in "$@"; do for k in 1 2; do
  [ -f $SRC/$id/patch$k.diff ] || continue
  n=$((k+OFF)); D=seeded/$id/$n
  [ -f $D/meta.json ] && continue
  mkdir -p $D
  cp $SRC/$id/patch$k.diff $D/patch.diff; cp $SRC/$id/demo$k.py $D/demo.py
  python3 tools/mutants.py confirm $D > $D/confirm.json
  python3 - <<PY
import json
a=json.load(open('$SRC/$id/meta$k.json')); c=json.load(open('$D/confirm.json'))
m={"property":"$id","round":int('${ROUND:-2}'),"summary":a.get("summary"),"needs":a.get("needs"),"files":a.get("files"),"confirmed_by":"tools/mutants.py confirm (scratch copy of /repo HEAD: demo passes without the change; with it the unedited suite reports 290 passed and the demo fails)","confirm":c}
json.dump(m,open('$D/meta.json','w'),indent=1)
print('$id/$n confirmed=',c['confirmed'])
PY
done; done
