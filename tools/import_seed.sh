#!/bin/sh
# tools/import_seed.sh <ID> <K> : copy /tmp/wtout/<ID>/{patchK.diff,demoK.py,metaK.json} to seeded/<ID>/<K>/ and confirm it
set -e
cd "$(dirname "$0")/.."
ID=$1; K=$2; D=seeded/$ID/$K
mkdir -p $D
cp /tmp/wtout/$ID/patch$K.diff $D/patch.diff
cp /tmp/wtout/$ID/demo$K.py $D/demo.py
cp /tmp/wtout/$ID/meta$K.json $D/agent_meta.json
python3 tools/mutants.py confirm $D > $D/confirm.json || true
cat $D/confirm.json
