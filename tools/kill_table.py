#!/usr/bin/env python3
"""Write sensitivity/kill_matrix.md from sensitivity/report.json and seeded/*/*/meta.json."""
import json, os
HERE = os.path.dirname(os.path.dirname(os.path.abspath(__file__)))
rep = json.load(open(os.path.join(HERE, "sensitivity", "report.json")))
runs = rep["runs"] if "runs" in rep else rep
lines = ["# Seeded changes vs. checks", "",
         "Every seeded change was written by a fresh sub-agent that saw only the property text and a scratch worktree",
         "(round 1: seeded/<id>/1-2, round 2 'harder, different mechanism': seeded/<id>/3-4), confirmed by",
         "`tools/mutants.py confirm` (demo passes without / fails with the change, unedited suite still 290 passed)",
         "and then run against the quick check of its own property in a scratch copy (`tools/mutants.py all`).", "",
         "| change | what it does (agent's summary, truncated) | needs | result | violated clauses (buckets) | wall s |",
         "|---|---|---|---|---|---|"]
n = k = 0
for key in sorted(runs):
    pid, idx = key.split("/")
    meta = json.load(open(os.path.join(HERE, "seeded", pid, idx, "meta.json")))
    r = runs[key].get(pid) or next(iter(runs[key].values()))
    n += 1
    k += bool(r["killed"])
    def cut(s, m):
        s = " ".join((s or "").split()).replace("|", "/")
        return s if len(s) <= m else s[:m - 1] + "…"
    lines.append(f"| {key} | {cut(meta.get('summary'), 170)} | {cut(meta.get('needs'), 130)} | "
                 f"{'killed' if r['killed'] else 'SURVIVED' if r['exit'] == 0 else 'exit ' + str(r['exit'])} | "
                 f"{', '.join(r['buckets'][:3])} | {r['wall_s']} |")
lines += ["", f"{k} of {n} seeded changes are reported as VIOLATION by the quick check of the property they were written against."]
open(os.path.join(HERE, "sensitivity", "kill_matrix.md"), "w").write("\n".join(lines) + "\n")
print(f"{k}/{n}")
