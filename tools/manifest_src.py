NOTES = ("All checks are property-based tests over generated configurations / call histories / "
         "cycle-by-cycle schedules with explicit oracles; see DESIGN.md. VERIF_SEED selects the "
         "case stream, VERIF_REPO (default /repo) the tree under test, VERIF_SCALE multiplies "
         "the per-worker case count.")
NOT_APPLICABLE = {}
CHECKS = {
 "C02": dict(
    design_ref="DESIGN.md section 4, C02",
    technique="model-based property testing of call histories (Hypothesis op lists vs. allocator reference model)",
    text=("Generated call histories (add_resource/add_window/align_to/freeze/implicit freezes, valid and invalid "
          "arguments, addresses aimed at existing range ends) are applied to the real MemoryMap and to an independent "
          "allocator model; after every call placement, span, bounds, disjointness, reporting, refusal-completeness "
          "and failure atomicity are compared. Bounded exploration: finds counterexamples, does not prove absence."),
    note=("Trusts the allocator model in vlib/props/C02.py (brute-force overlap scan). Names are unique so namespace "
          "conflicts never cause refusals; dense ratio>1 windows: placement address not predicted (not claimed by the property).")),
 "C19": dict(
    design_ref="DESIGN.md section 4, C19",
    technique="property-based testing over generated component configurations; outcome classification + triple-elaboration RTLIL differential",
    text=("For 12 component classes, generated parameter combinations (including boundary/invalid values, unaligned CSR layouts with every "
          "sharing limit, Builder Cluster/Index histories, enum/flag shapes) are constructed and elaborated three times under a watchdog; "
          "each step must succeed or be a deliberate ValueError/TypeError refusal, RTLIL of the three elaborations must be identical and "
          "memory map / signature / public metadata unchanged. Bounded exploration of the configuration space."),
    note=("Deliberate refusal is recognised syntactically (innermost frame is a `raise` statement in amaranth_soc/amaranth raising the caught class). "
          "Non-termination is observed as a 60 s watchdog or RecursionError. Hardware identity = RTLIL text identity.")),
 "C20": dict(
    design_ref="DESIGN.md section 4, C20",
    technique="property-based testing: wiring.connect() of complementary interfaces to generated components; signature round-trip/equality oracle from parameters",
    text=("Generated components of every class get the complementary standard interface connect()ed to each bus port; generated parameter pairs of "
          "the six signature classes are checked for create() round trip, equality iff defining parameters are equal (both argument orders), "
          "member presence, widths and flows computed independently from the parameters."),
    note="Only same-class comparisons; FieldPort shapes compared after Shape.cast as documented."),
}
