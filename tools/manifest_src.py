NOTES = ("All checks are property-based tests over generated configurations / call histories / "
         "cycle-by-cycle schedules with explicit oracles; see DESIGN.md. VERIF_SEED selects the "
         "case stream, VERIF_REPO (default /repo) the tree under test, VERIF_SCALE multiplies "
         "the per-worker case count.")
NOT_APPLICABLE = {}
CHECKS = {
 "C02": dict(
    design_ref="DESIGN.md section 4, C02",
    technique="model-based property testing of call histories (Hypothesis op lists vs. allocator reference model)",
    text=("Generated call histories (add_resource/add_window/align_to/freeze/implicit freezes, valid and invalid "
          "arguments, addresses aimed at existing range ends) are applied to the real MemoryMap and to an independent "
          "allocator model; after every call placement, span, bounds, disjointness, reporting, refusal-completeness "
          "and failure atomicity are compared. Bounded exploration: finds counterexamples, does not prove absence."),
    note=("Trusts the allocator model in vlib/props/C02.py (brute-force overlap scan). Names are unique so namespace "
          "conflicts never cause refusals; dense ratio>1 windows: placement address not predicted (not claimed by the property).")),
}
