NOTES = ("All checks are property-based tests over generated configurations / call histories / "
         "cycle-by-cycle schedules with explicit oracles; see DESIGN.md. VERIF_SEED selects the "
         "case stream, VERIF_REPO (default /repo) the tree under test, VERIF_SCALE multiplies "
         "the per-worker case count. Across the simulation-based checks one generated case in six "
         "shares its design with companion cases (an identically configured twin, another case of the "
         "same property, or a case of another property), each keeping its own oracle; one in six starts "
         "after garbage on all inputs followed by a domain reset; components are also built from "
         "arguments in every legal Python spelling (one-shot iterators, subclasses, shared / value-equal "
         "/ falsy user objects). Pinned cases (scale, >256 items) run outside Hypothesis.")
NOT_APPLICABLE = {}
CHECKS = {
 "C02": dict(
    design_ref="DESIGN.md section 4, C02",
    technique="model-based property testing of call histories (Hypothesis op lists vs. allocator reference model)",
    text=("Generated call histories (add_resource/add_window/align_to/freeze/implicit freezes, valid and invalid "
          "arguments, addresses aimed at existing range ends) are applied to the real MemoryMap and to an independent "
          "allocator model; after every call placement, span, bounds, disjointness, reporting, refusal-completeness "
          "and failure atomicity are compared. Bounded exploration: finds counterexamples, does not prove absence."),
    note=("Trusts the allocator model in vlib/props/C02.py (brute-force overlap scan). Names are unique so namespace "
          "conflicts never cause refusals; dense ratio>1 windows: placement address not predicted (not claimed by the property).")),
 "C19": dict(
    design_ref="DESIGN.md section 4, C19",
    technique="property-based testing over generated component configurations; outcome classification + triple-elaboration RTLIL differential",
    text=("For 12 component classes, generated parameter combinations (including boundary/invalid values, unaligned CSR layouts with every "
          "sharing limit, Builder Cluster/Index histories, enum/flag shapes) are constructed and elaborated three times under a watchdog; "
          "each step must succeed or be a deliberate ValueError/TypeError refusal, RTLIL of the three elaborations must be identical and "
          "memory map / signature / public metadata unchanged. Bounded exploration of the configuration space."),
    note=("Deliberate refusal is recognised syntactically (innermost frame is a `raise` statement in amaranth_soc/amaranth raising the caught class). "
          "Non-termination is observed as a watchdog of 60 s CPU time or RecursionError. Hardware identity = RTLIL text identity.")),
 "C20": dict(
    design_ref="DESIGN.md section 4, C20",
    technique="property-based testing: wiring.connect() of complementary interfaces to generated components; signature round-trip/equality oracle from parameters",
    text=("Generated components of every class get the complementary standard interface connect()ed to each bus port; generated parameter pairs of "
          "the six signature classes are checked for create() round trip, equality iff defining parameters are equal (both argument orders), "
          "member presence, widths and flows computed independently from the parameters."),
    note=("Signatures are also compared with signatures of every other class, generic signatures and non-signatures (never equal), with copies "
          "(always equal), created with integer path items and from the outermost frame of a thread; the flipped signature is not compared "
          "(these classes compare parameters only). FieldPort shapes compared after Shape.cast as documented.")),
 "C04": dict(
    design_ref="DESIGN.md section 4, C04",
    technique="property-based testing with cycle-accurate simulation of the real multiplexer in lock step with a reference model (conforming and arbitrary stimuli)",
    text=("Generated register layouts x sharing limits x transaction schedules are simulated on the real csr.Multiplexer; every cycle r_stb of every "
          "register and bus.r_data are compared with a snapshot model that shares no code with the implementation (no shadow/hash). Arbitrary "
          "(non-conforming) stimuli check strobe exactness and zero-when-idle only. Bounded exploration."),
    note="Trusts vlib/csrmodel.py and Amaranth's Python simulator. Data returned by non-conforming sequences is not compared."),
 "C05": dict(
    design_ref="DESIGN.md section 4, C05",
    technique="property-based testing with lock-step reference model + sharing-limit differential (same stimulus under two shadow_overlaps values)",
    text=("Same space as C04; every cycle w_stb of every register (all stimuli) and w_data at the strobe on the chunks written in the transaction "
          "(conforming stimuli) are compared with the model, under the layout's sharing limit and under a second one."),
    note="Trusts vlib/csrmodel.py and the simulator. Unwritten chunks of w_data are don't-care."),
 "C11": dict(
    design_ref="DESIGN.md section 4, C11",
    technique="property-based testing over generated field trees; packing oracle from an independent walk of the input description; combinational simulation",
    text=("Generated nested field collections (dict/list/Field/annotations, all shapes and access modes incl. reserved and zero-width) are built into "
          "registers; refusal iff access mismatch; order, width, r_data composition, w_data slices and strobe fan-out are compared with arithmetic on the description."),
    note="Field values are observed at field ports; trusts the simulator."),
 "C12": dict(
    design_ref="DESIGN.md section 4, C12",
    technique="property-based testing of input histories against per-action step models, plus exhaustive (state,input) enumeration for widths 1-3",
    text=("Arbitrary per-cycle w_stb/w_data/set/clear/r_data histories on every action and shape (unsigned, signed, Enum, Flag) are simulated and all bits compared "
          "jointly every cycle with step models; all (state, w_stb, w_data, hw) combinations are enumerated completely for RW/RW1C/RW1S of width 1..3 (4 in thorough)."),
    note="Signals accessed as raw bit patterns; trusts the simulator."),
 "C13": dict(
    design_ref="DESIGN.md section 4, C13",
    technique="model-based property testing: EventMap call histories vs list model; Monitor cycle-accurate simulation vs step model",
    text=("EventMap histories (repeats, freeze, wrong types) against an insertion-ordered list; Monitor with up to 10 sources of mixed trigger modes added in shuffled "
          "order with repeats, arbitrary inputs/enable/clear every cycle, trg/pending/src.i compared each cycle (trigger beats clear; bit k <-> index k)."),
    note="Trusts the simulator; pending read from Monitor.pending."),
 "C03": dict(
    design_ref="DESIGN.md section 4, C03",
    technique="property-based testing over generated map trees; oracle = plain address arithmetic on values returned at construction; exhaustive decode of every root address per tree",
    text=("Generated trees of memory maps (depth <= 4; ratio-1/sparse windows anywhere, dense 2/4/8 over leaf maps; named/anonymous; implicit/aligned/explicit) are "
          "built and all_resources(), find_resource() (every resource and never-added objects) and decode_address() for every root address are compared with "
          "range/width/path arithmetic that shares no code with memory.py."),
    note="Dense-over-non-leaf and dense-then-sparse stacks are outside the stated domain and never generated."),
 "C17": dict(
    design_ref="DESIGN.md section 4, C17",
    technique="model-based property testing of Builder call histories (nested scopes, error paths) against independent placement arithmetic",
    text=("Generated builder geometries and add/Cluster/Index/freeze/as_memory_map histories with valid and invalid arguments (failures caught inside or outside the "
          "with-block) are replayed on the real Builder; as_memory_map() must raise iff the model finds overlap/name conflict/overflow, else resources() must equal "
          "the model layout (twice)."),
    note="Zero-width registers occupy one address. Trusts the placement model in vlib/props/C17.py."),
 "C18": dict(
    design_ref="DESIGN.md section 4, C18",
    technique="model-based property testing of naming histories on a pool of maps against a prefix-conflict namespace model (both directions)",
    text=("Histories of add_resource/add_window(named/anonymous) with prefix-rich names (strings and integers) on map trees where address space can never be the "
          "reason for refusal; acceptance must equal the model's verdict in both directions, refusals must change nothing, final paths pairwise distinct."),
    note="Non-name refusal causes are excluded by construction or tracked (frozen parent, duplicate window)."),
 "C06": dict(
    design_ref="DESIGN.md section 4, C06",
    technique="property-based testing: exhaustive per-address combinational sweep of generated decoders vs. windows() oracle; tree-vs-flat-multiplexer differential with lock-step reference model",
    text=("Part A sweeps every address x strobe combination of generated decoders with testbench-played subordinates and checks one-hot routing, address/data "
          "transparency and read-data return against the windows the memory map reports. Part B simulates generated decoder trees over multiplexers side by side with "
          "one flat multiplexer built from root.memory_map.all_resources() under the same conforming stimulus."),
    note="Subordinates are protocol-abiding (zero r_data unless read in the previous cycle). Trusts the simulator and vlib/csrmodel.py."),
 "C07": dict(
    design_ref="DESIGN.md section 4, C07",
    technique="property-based testing: exhaustive per-address combinational sweep of generated Wishbone decoders with random request/response vectors vs. windows() oracle",
    text=("Generated decoder geometries/feature subsets/window sets (dense equal-granularity and sparse >= 1 word; shuffled add order) are swept over every address with "
          "random request vectors; selection, request fan-out (adr offset, sel, we, stb, dat_w, lock/cti/bte or defaults) and response fan-in (ack/err/rty/stall/dat_r of "
          "the selected subordinate only) are checked. Two open known findings (K1, K2) are probed by pinned cases and reported as KNOWN-FINDING."),
    note="Unselected subordinates keep response lines low (Wishbone rule) but drive arbitrary dat_r. Sparse windows: selection only."),
 "C08": dict(
    design_ref="DESIGN.md section 4, C08",
    technique="property-based testing of arbitrary (non-behaving) initiator/target schedules on the simulated arbiter vs. an owner/bus-mux reference model",
    text=("Generated arbiter/initiator geometries and feature subsets, 1-6 (thorough 8) initiators driving arbitrary request signals every cycle and a target driving "
          "arbitrary responses; every cycle the shared bus, every initiator's ack/err/rty/stall and the owner (cross-checked by acknowledge routing) are compared with the model."),
    note="Owner register is not read; it is the model's owner, validated each acknowledged cycle by the unique initiator that receives ack."),
 "C09": dict(
    design_ref="DESIGN.md section 4, C09",
    technique="exhaustive transition-table extraction from the simulated arbiter (N<=6, with/without LOCK) + graph fairness check on the extracted table + property-based random schedules with a bounded-wait monitor",
    text=("The real arbiter is driven into every owner and every (request vector, owner stb/lock, target ack) combination for N=1..6 with and without LOCK; each observed "
          "transition must equal the round-robin rule, and the extracted graph must have no starvation cycle and at most N-1 owner changes before a waiting initiator is granted. "
          "Random schedules (N<=8 thorough) check the same function and a bounded-wait monitor."),
    note="Liveness is decided only through this finite reduction (as the property states) for N <= 6/7; larger N by random schedules only."),
 "C10": dict(
    design_ref="DESIGN.md section 4, C10",
    technique="property-based testing of protocol-abiding initiator schedules on the simulated bridge vs. a transfer-level timing oracle; composition with the multiplexer model for real registers",
    text=("Every CSR/Wishbone width combination and address width, transfers with all/partial/no select held until ack then next/drop-stb/drop-both, idle/cyc-only/stb-only gaps. "
          "Variant A plays the CSR target in the testbench and checks every cycle's CSR strobes/address/data, single ack at ratio+1 and read lanes; variant B puts a real multiplexer "
          "with multi-granule registers behind the bridge."),
    note="Initiator is protocol-abiding (holds request until ack). Unselected read lanes are not constrained."),
 "C15": dict(
    design_ref="DESIGN.md section 4, C15",
    technique="property-based testing of arbitrary bus histories on the simulated SRAM vs. a memory/ack step model, memory image read back through the simulator",
    text=("All geometries (incl. refused), writable or not, init images; arbitrary cyc/stb/we/adr/sel/dat_w with hold/redraw per signal group; ack, read data at ack and the "
          "memory rows (every cycle for touched rows, full image every 4 cycles) are compared with the model."),
    note="Memory rows are read via the simulator from the Memory object listed in the SRAM's memory map."),
 "C14": dict(
    design_ref="DESIGN.md section 4, C14",
    technique="property-based testing: cycle-accurate simulation of the CSR event monitor (attached via decoder or wiring.connect) vs. composed multiplexer + event-monitor model",
    text=("Generated event counts (0 .. >2 bus words), widths, alignments and trigger modes; conforming CSR transactions on the addresses the memory map reports run against "
          "arbitrary source waveforms; every cycle bus.r_data and src.i are compared with the composed model (enable read-back, pending read/W1C, trigger beats clear, atomic multi-chunk reads)."),
    note="Mask registers are written completely or not at all. Observation through the bus port and src.i only."),
 "C16": dict(
    design_ref="DESIGN.md section 4, C16",
    technique="property-based testing: cycle-accurate simulation of the GPIO peripheral vs. composed multiplexer + GPIO model",
    text=("Generated pin counts (1 .. > one bus word of mode bits), bus geometries, input_stages 0-3; conforming CSR transactions on Mode/Input/Output/SetClr with per-pin differing "
          "random data interleaved with arbitrary pin waveforms; every cycle bus.r_data, all pins' o/oe and alt_mode are compared with the model."),
    note="Register addresses are taken from the memory map by name and cross-checked with natural-alignment arithmetic."),
 "C01": dict(
    design_ref="DESIGN.md section 4, C01",
    technique="property-based testing over generated bus hierarchies: exhaustive per-address read/write sweeps of the simulated hierarchy, oracle = the root memory map (decode_address/find_resource), all leaf strobes probed every cycle",
    text=("Generated hierarchies (Wishbone decoder over SRAMs / Wishbone-CSR bridges / nested decoders, or a CSR decoder root; CSR subtrees of decoders, register bridges with "
          "Builder scopes, multiplexers over unaligned mock registers, event monitors, GPIO) are simulated; for every root address reads and writes with full and random "
          "select masks are issued and leaf strobes, lane data, w_data, SRAM contents, acknowledge/no-acknowledge are compared with what the root memory map reports."),
    note=("Bounded exploration (root address space <= 256 granules quick / 2048 thorough). Non-first-chunk read data and w_data masks use conservative validity tracking. "
          "Trusts the simulator.")),
}
