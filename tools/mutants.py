#!/usr/bin/env python3
"""Sensitivity harness.

  tools/mutants.py confirm <dir>          confirm a candidate seeded change (patch.diff + demo.py [+ meta.json]):
                                          applies cleanly, suite still passes, demo passes without / fails with it
  tools/mutants.py run <dir> [ids...]     run the quick checks (default: the property in meta.json) against a scratch
                                          copy of /repo with the patch applied; prints killed/survived per check
  tools/mutants.py fixed                  revert each recorded fix: commit in a scratch copy; its replay must fail again
  tools/mutants.py all [--props-all]      run every seeded change under /verif/seeded against its own property's check
                                          and write sensitivity/report.json

Scratch copies live under /tmp and are removed as soon as each run is over. /repo is never modified."""
import json, os, shutil, subprocess, sys, tempfile, time

HERE = os.path.dirname(os.path.dirname(os.path.abspath(__file__)))
PY = "/venv/bin/python"


def scratch_copy(patch=None):
    d = tempfile.mkdtemp(prefix="verif-mutant-")
    subprocess.run(f"git -C /repo archive HEAD | tar -x -C {d}", shell=True, check=True)
    if patch:
        r = subprocess.run(["patch", "-p1", "-s", "-i", os.path.abspath(patch)], cwd=d, capture_output=True, text=True)
        if r.returncode != 0:
            shutil.rmtree(d)
            raise RuntimeError(f"patch does not apply: {r.stdout}{r.stderr}")
    return d


def run_suite(d):
    env = dict(os.environ, PYTHONPATH=d, PYTHONDONTWRITEBYTECODE="1")
    r = subprocess.run([PY, "-m", "pytest", "-q", "-p", "no:cacheprovider", "-x"], cwd=d, env=env,
                       capture_output=True, text=True)
    tail = (r.stdout.strip().splitlines() or [""])[-1]
    return r.returncode == 0 and "290 passed" in tail, tail


def run_demo(d, demo):
    env = dict(os.environ, PYTHONPATH=d, PYTHONDONTWRITEBYTECODE="1")
    r = subprocess.run([PY, os.path.abspath(demo)], cwd=d, env=env, capture_output=True, text=True, timeout=600)
    return r.returncode, (r.stdout + r.stderr).strip().splitlines()[-1:] or [""]


def confirm(mdir):
    patch, demo = os.path.join(mdir, "patch.diff"), os.path.join(mdir, "demo.py")
    out = {}
    clean = scratch_copy()
    try:
        rc, tail = run_demo(clean, demo)
        out["demo_without_change"] = {"exit": rc, "tail": tail}
    finally:
        shutil.rmtree(clean)
    mut = scratch_copy(patch)
    try:
        ok, tail = run_suite(mut)
        out["suite_with_change"] = {"passes": ok, "tail": tail}
        rc, tail = run_demo(mut, demo)
        out["demo_with_change"] = {"exit": rc, "tail": tail}
    finally:
        shutil.rmtree(mut)
    out["confirmed"] = (out["demo_without_change"]["exit"] == 0 and out["suite_with_change"]["passes"]
                        and out["demo_with_change"]["exit"] != 0)
    return out


def run_checks(mdir, ids, tier="quick", seed="1"):
    patch = os.path.join(mdir, "patch.diff")
    mut = scratch_copy(patch)
    res = {}
    try:
        for pid in ids:
            env = dict(os.environ, VERIF_REPO=mut, VERIF_SEED=seed, VERIF_EVIDENCE_DIR=os.path.join(mut, ".evidence"))
            t0 = time.time()
            r = subprocess.run([os.path.join(HERE, "vcheck"), pid, tier], cwd=HERE, env=env,
                               capture_output=True, text=True)
            viol = [l for l in r.stdout.splitlines() if l.startswith("VIOLATION")]
            buckets = [l.strip()[len("bucket: "):] for l in r.stdout.splitlines() if l.strip().startswith("bucket: ")]
            res[pid] = {"exit": r.returncode, "killed": r.returncode == 1 and bool(viol), "buckets": buckets,
                        "wall_s": round(time.time() - t0, 1)}
            if r.returncode == 2:
                res[pid]["stderr_tail"] = r.stderr.strip().splitlines()[-3:]
    finally:
        shutil.rmtree(mut)
    return res


def main(argv):
    if not argv:
        print(__doc__); return 2
    if argv[0] == "confirm":
        out = confirm(argv[1])
        print(json.dumps(out, indent=1))
        return 0 if out["confirmed"] else 1
    if argv[0] == "run":
        mdir = argv[1]
        ids = argv[2:]
        if not ids:
            ids = [json.load(open(os.path.join(mdir, "meta.json")))["property"]]
        res = run_checks(mdir, ids)
        print(json.dumps(res, indent=1))
        return 0
    if argv[0] == "fixed":
        # every 'fixed' entry of known_findings.json: revert its fix in a scratch copy, its replay must fail again
        kf = json.load(open(os.path.join(HERE, "known_findings.json")))["findings"]
        rc = 0
        out = {}
        for k in kf:
            if k["status"] != "fixed":
                continue
            d = scratch_copy()
            try:
                diff = subprocess.run(["git", "-C", "/repo", "diff", k["commit"] + "~1", k["commit"]],
                                      capture_output=True, text=True, check=True).stdout
                r = subprocess.run(["patch", "-R", "-p1", "-s"], cwd=d, input=diff, capture_output=True, text=True)
                if r.returncode != 0:
                    print(k["id"], "cannot revert:", r.stdout, r.stderr); rc = 1; continue
                env = dict(os.environ, VERIF_REPO=d)
                r = subprocess.run([os.path.join(HERE, "vcheck"), "--replay", os.path.join(HERE, k["replay"])],
                                   cwd=HERE, env=env, capture_output=True, text=True)
                ok = r.returncode == 1 and "VIOLATION" in r.stdout
                r2 = subprocess.run([os.path.join(HERE, "vcheck"), "--replay", os.path.join(HERE, k["replay"])],
                                    cwd=HERE, capture_output=True, text=True)
                ok2 = r2.returncode == 0
                out[k["id"]] = {"fails_with_fix_reverted": ok, "passes_on_repaired_tree": ok2}
                print(k["id"], k["commit"], "reverted ->", "VIOLATION" if ok else f"exit {r.returncode}", "| repaired tree ->",
                      "held" if ok2 else f"exit {r2.returncode}")
                if not (ok and ok2):
                    rc = 1
            finally:
                shutil.rmtree(d)
        os.makedirs(os.path.join(HERE, "sensitivity"), exist_ok=True)
        with open(os.path.join(HERE, "sensitivity", "fixed_findings.json"), "w") as f:
            json.dump(out, f, indent=1, sort_keys=True)
        return rc
    if argv[0] == "rerun":
        # re-run the given seeded changes (e.g. C02/3) against their own property and update the report in place
        path = os.path.join(HERE, "sensitivity", "report.json")
        rep = json.load(open(path))
        for key in argv[1:]:
            pid, k = key.split("/")
            res = run_checks(os.path.join(HERE, "seeded", pid, k), [pid])
            rep["runs"][key] = res
            print(key, {i: ("KILLED" if v["killed"] else "exit%d" % v["exit"]) for i, v in res.items()}, flush=True)
        rep["summary"] = {"seeded_changes": len(rep["runs"]),
                          "killed_by_own_property_check": sum(1 for r in rep["runs"].values() if any(v["killed"] for v in r.values()))}
        json.dump(rep, open(path, "w"), indent=1, sort_keys=True)
        return 0
    if argv[0] == "all":
        from concurrent.futures import ThreadPoolExecutor
        all_props = "--props-all" in argv
        jobs = 3
        for a_ in argv:
            if a_.startswith("--jobs="):
                jobs = int(a_.split("=")[1])
        report = {}
        root = os.path.join(HERE, "seeded")
        allids = sorted(p[:-3] for p in os.listdir(os.path.join(HERE, "vlib", "props")) if p.startswith("C") and p.endswith(".py"))
        work = []
        for pid in sorted(os.listdir(root)):
            for k in sorted(os.listdir(os.path.join(root, pid))):
                mdir = os.path.join(root, pid, k)
                if os.path.exists(os.path.join(mdir, "patch.diff")):
                    work.append((pid, k, mdir))

        def one(item):
            pid, k, mdir = item
            res = run_checks(mdir, allids if all_props else [pid])
            print(f"{pid}/{k}: " + ", ".join(f"{i}={'KILLED' if v['killed'] else 'survived' if v['exit'] == 0 else 'exit' + str(v['exit'])}"
                                            for i, v in res.items()), flush=True)
            return f"{pid}/{k}", res
        with ThreadPoolExecutor(jobs) as ex:
            for key, res in ex.map(one, work):
                report[key] = res
        os.makedirs(os.path.join(HERE, "sensitivity"), exist_ok=True)
        killed = sum(1 for r in report.values() if any(v["killed"] for v in r.values()))
        with open(os.path.join(HERE, "sensitivity", "report.json"), "w") as f:
            json.dump({"summary": {"seeded_changes": len(report), "killed_by_own_property_check": killed},
                       "runs": report}, f, indent=1, sort_keys=True)
        print(f"{killed}/{len(report)} killed")
        return 0
    print(__doc__)
    return 2


if __name__ == "__main__":
    sys.exit(main(sys.argv[1:]))
