#!/bin/sh
# tools/quiet.sh <tier> <seed>...   run every registered check at the given seeds on the unchanged tree; report non-zero exits
cd "$(dirname "$0")/.."
TIER=$1; shift
OUT=${VERIF_QUIET_DIR:-/tmp/verif-quiet}
mkdir -p $OUT
for seed in "$@"; do
  for id in $(python3 -c "import json; print(' '.join(c['property_id'] for c in json.load(open('MANIFEST.json'))['checks']))"); do
    VERIF_SEED=$seed VERIF_EVIDENCE_DIR=$OUT/ev-$seed ./vcheck $id $TIER > $OUT/$id-$TIER-$seed.log 2>&1
    rc=$?
    echo "$id $TIER seed=$seed exit=$rc $(tail -1 $OUT/$id-$TIER-$seed.log | cut -c1-150)"
  done
done
