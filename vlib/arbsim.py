"""wishbone.Arbiter: generators, reference model and lock-step simulation (used by C08 and C09)."""
# amaranth: UnusedElaboratable=no
from hypothesis import strategies as st

from amaranth import Cat, Value

from amaranth_soc import wishbone

from vlib import gens, sim
from vlib.csrmodel import hval
from vlib.common import Violation

CTI_VALUES = [0b000, 0b001, 0b010, 0b111]


@st.composite
def arbiter_config(draw, max_n=6, min_n=1):
    dw = draw(st.sampled_from([8, 16, 32, 32, 64]))
    g = draw(st.sampled_from([x for x in (8, 16, 32, 64) if x <= dw]))
    feat = draw(gens.wb_features())
    n = draw(st.integers(min_n, max_n))
    intrs = []
    for _ in range(n):
        ig = draw(st.sampled_from([x for x in (8, 16, 32, 64) if g <= x <= dw]))
        ifeat = set(draw(gens.wb_features())) | ({"err", "rty"} & set(feat))
        intrs.append({"g": ig, "feat": sorted(ifeat)})
    # add() calls that must be refused, interleaved with the accepted ones: (position, kind)
    bad = []
    if draw(st.integers(0, 3)) == 0:
        bad = draw(st.lists(st.tuples(st.integers(0, n), st.sampled_from(["aw", "dw", "gran", "lacks_err", "lacks_rty"])).map(list),
                            min_size=1, max_size=2))
    return {"aw": draw(st.integers(0, 6)), "dw": dw, "g": g, "feat": feat, "intrs": intrs, "bad_adds": bad,
            # the arbiter is elaborated once after this many add() calls (None: only when complete)
            "mid_elab": draw(st.sampled_from([None, None, None, 0, 1, 2])),
            # feature names given partly as strings, partly as Feature members
            "feat_style": draw(st.sampled_from(gens.FEATURE_STYLES)),
            "feat_tamper": draw(st.sampled_from(gens.FEATURE_TAMPER)),
            # every initiator interface created with the same path (identically named signals)
            "same_path": draw(st.sampled_from([False, False, True])),
            # initiator interfaces are instances of a user subclass with value equality (all equal, same hash)
            "eq_intrs": draw(st.sampled_from([False] * 5 + [True])),
            # an unrelated wishbone.Decoder with every optional signal sits in the same design (elaborated
            # first) and sees arbitrary traffic of its own
            "neighbour": draw(st.sampled_from([False, False, False, True]))}


def schedule_spec():
    return st.fixed_dictionaries({
        "dseed": st.integers(0, 1 << 30),
        "cycles": gens.weighted((11, st.integers(30, 200)), (1, st.integers(500, 1200))),     # occasionally a long run
        "req_bias": st.sampled_from([1, 2, 3, 3]),       # P(cyc) ~ k/4
        "hold": st.lists(st.integers(1, 6), min_size=8, max_size=8),
        "ack_bias": st.sampled_from([1, 2, 3]),
    })


class EqInterface(wishbone.Interface):
    """A user subclass of wishbone.Interface whose instances all compare equal and hash alike; the
    arbiter deals with initiator *objects*."""
    def __eq__(self, other):
        return isinstance(other, EqInterface)

    def __hash__(self):
        return 17


def build(cfg):
    def spell(feat):
        return gens.spell_features(feat, cfg.get("feat_style", "mixed" if cfg.get("feat_mixed") else "list"))
    passed = spell(cfg["feat"])
    arb = wishbone.Arbiter(addr_width=cfg["aw"], data_width=cfg["dw"], granularity=cfg["g"], features=passed)
    gens.tamper_features(passed, arb.bus, cfg.get("feat_tamper"))
    intrs = []
    arb.ghosts = []

    def bad_adds(pos):
        for k, (p, kind) in enumerate(cfg.get("bad_adds", [])):
            if p != pos:
                continue
            feat = set(cfg["feat"]) | {"err", "rty"}
            kw = dict(addr_width=cfg["aw"], data_width=cfg["dw"], granularity=cfg["dw"], features=sorted(feat))
            if kind == "aw":
                kw["addr_width"] = cfg["aw"] + 1
            elif kind == "dw":
                kw["data_width"] = 16 if cfg["dw"] != 16 else 32
                kw["granularity"] = kw["data_width"]
            elif kind == "gran":
                if cfg["g"] == 8:
                    continue
                kw["granularity"] = 8
            elif kind == "lacks_err":
                if "err" not in cfg["feat"]:
                    continue
                kw["features"] = sorted(feat - {"err"})
            elif kind == "lacks_rty":
                if "rty" not in cfg["feat"]:
                    continue
                kw["features"] = sorted(feat - {"rty"})
            ghost = wishbone.Interface(path=(f"ghost{k}",), **kw)
            try:
                arb.add(ghost)
            except ValueError:
                arb.ghosts.append(ghost)
            else:
                arb.ghost_accepted = True
    for i, s in enumerate(cfg["intrs"]):
        bad_adds(i)
        f = (EqInterface if cfg.get("eq_intrs") else wishbone.Interface)(
            addr_width=cfg["aw"], data_width=cfg["dw"], granularity=s["g"],
            features=spell(s["feat"]), path=("intr",) if cfg.get("same_path") else (f"intr{i}",))
        arb.add(f)
        intrs.append(f)
        if cfg.get("mid_elab") is not None and cfg["mid_elab"] == i:
            from amaranth.hdl import Fragment
            Fragment.get(arb, None)
            arb.mid_elaborated = i < len(cfg["intrs"]) - 1
    bad_adds(len(cfg["intrs"]))
    got = sorted(f.value for f in arb.bus.features)
    if got != sorted(cfg["feat"]) or any(not hasattr(arb.bus, f) for f in cfg["feat"]):
        raise Violation("arbiter/bus-features", f"Arbiter(features={cfg['feat']} given as {cfg.get('feat_style', 'list')}"
                        f"{', caller container ' + str(cfg.get('feat_tamper')) + ' afterwards' if cfg.get('feat_tamper') else ''}): "
                        f"its bus reports features {got}")
    return arb, intrs


def next_owner(g, req, busy, n):
    """Round robin as stated: stays while busy; else the requester closest after g cyclically; else g."""
    if busy:
        return g
    for d in range(1, n):
        k = (g + d) % n
        if req[k]:
            return k
    return g


def fan_out(sel, nsel_in, ratio):
    out = 0
    for b in range(nsel_in):
        if (sel >> b) & 1:
            out |= ((1 << ratio) - 1) << (b * ratio)
    return out


def run_schedule(cfg, sched, stats, prop, check_bus, check_next):
    arb, intrs = build(cfg)
    n = len(intrs)
    feat = set(cfg["feat"])
    aw, dw = cfg["aw"], cfg["dw"]
    bus = arb.bus
    nb = None
    if cfg.get("neighbour"):
        from amaranth_soc.memory import MemoryMap
        nb = wishbone.Decoder(addr_width=3, data_width=8, features=["err", "rty", "stall", "lock", "cti", "bte"])
        nb_sub = wishbone.Interface(addr_width=2, data_width=8, features=["lock", "cti", "bte"], path=("nbsub",))
        nb_sub.memory_map = MemoryMap(addr_width=2, data_width=8)
        nb.add(nb_sub)
        top = sim.wrap(nb, arb)
        stats.label("neighbour_decoder")
    else:
        top = sim.wrap(arb)
    seed = sched["dseed"]
    owner = [0]
    nsel_bus = dw // cfg["g"]
    changes_while_waiting = [0] * n
    waiting = [False] * n
    acks = Cat(*[f.ack for f in intrs])

    def has(f, k):
        return hasattr(f, k)

    if getattr(arb, "ghost_accepted", False):
        stats.label("bad_add_accepted_case_skipped")
        return

    async def tb(ctx):
        for t in range(sched["cycles"]):
            if nb is not None:
                ctx.set(nb.bus.cyc, hval(seed, "nbc", t, 1)); ctx.set(nb.bus.stb, hval(seed, "nbs", t, 1))
                ctx.set(nb.bus.lock, hval(seed, "nbl", t, 2) != 0)
                ctx.set(Value.cast(nb.bus.cti), CTI_VALUES[hval(seed, "nbt", t, 2)]); ctx.set(Value.cast(nb.bus.bte), hval(seed, "nbb", t, 2))
                ctx.set(nb.bus.adr, hval(seed, "nba", t, 3))
            for gi, gh in enumerate(arb.ghosts):      # refused initiators request all the time: must not matter
                ctx.set(gh.cyc, 1); ctx.set(gh.stb, 1)
                if len(gh.adr):
                    ctx.set(gh.adr, hval(seed, f"gh{gi}", t, len(gh.adr)))
                stats.label("refused_add_ghost")
            req = []
            ins = []
            for i, f in enumerate(intrs):
                h = sched["hold"][i % 8]
                p = hval(seed, f"p{i}", t // h, 8)
                cyc = int((p & 3) < sched["req_bias"])
                stb = int(((p >> 2) & 3) < 3) if hval(seed, f"q{i}", t, 2) else (p >> 2) & 1
                lock = int(((p >> 4) & 3) == 0)
                d = {"cyc": cyc, "stb": stb, "lock": lock, "we": hval(seed, f"we{i}", t, 1),
                     "adr": hval(seed, f"a{i}", t, aw), "dat_w": hval(seed, f"d{i}", t, dw),
                     "sel": hval(seed, f"s{i}", t, dw // cfg["intrs"][i]["g"]),
                     "cti": CTI_VALUES[hval(seed, f"c{i}", t, 2)], "bte": hval(seed, f"b{i}", t, 2)}
                ins.append(d)
                req.append(cyc)
                ctx.set(f.cyc, cyc); ctx.set(f.stb, stb); ctx.set(f.we, d["we"])
                if aw:
                    ctx.set(f.adr, d["adr"])
                ctx.set(f.dat_w, d["dat_w"]); ctx.set(f.sel, d["sel"])
                if has(f, "lock"):
                    ctx.set(f.lock, lock)
                if has(f, "cti"):
                    ctx.set(Value.cast(f.cti), d["cti"])
                if has(f, "bte"):
                    ctx.set(Value.cast(f.bte), d["bte"])
            tgt = {"ack": int(hval(seed, "ack", t, 2) < sched["ack_bias"]), "err": hval(seed, "err", t, 1),
                   "rty": hval(seed, "rty", t, 1), "stall": hval(seed, "stall", t, 1), "dat_r": hval(seed, "dr", t, dw)}
            ctx.set(bus.ack, tgt["ack"]); ctx.set(bus.dat_r, tgt["dat_r"])
            for k in ("err", "rty", "stall"):
                if k in feat:
                    ctx.set(getattr(bus, k), tgt[k])
            g = owner[0]
            o = ins[g]
            of = intrs[g]
            o_lock = o["lock"] if has(of, "lock") else 0
            where = (f"cycle {t} owner(model)={g} cyc={req} stb={[d['stb'] for d in ins]} "
                     f"lock={[d['lock'] if has(f, 'lock') else None for d, f in zip(ins, intrs)]} target ack={tgt['ack']}")
            # independent owner inference: who receives the acknowledge
            got_acks = ctx.get(acks)
            if tgt["ack"]:
                if got_acks != (1 << g):
                    who = [i for i in range(n) if (got_acks >> i) & 1]
                    bucket = f"{prop}/next-owner" if check_next and not check_bus else f"{prop}/ack-routing"
                    raise Violation(bucket, f"{where}: acknowledge seen by initiators {who}, expected only {g}")
            elif got_acks:
                raise Violation(f"{prop}/spurious-ack", f"{where}: initiators see ack {got_acks:#b} although the target does not ack")
            if check_bus:
                ratio = cfg["intrs"][g]["g"] // cfg["g"]
                exp = {"adr": o["adr"], "dat_w": o["dat_w"], "we": o["we"], "stb": o["stb"], "cyc": o["cyc"],
                       "sel": fan_out(o["sel"], dw // cfg["intrs"][g]["g"], ratio)}
                got = {k: ctx.get(getattr(bus, k)) for k in exp if not (k == "adr" and aw == 0)}
                if aw == 0:
                    exp.pop("adr")
                if got != exp:
                    diff = {k: (got[k], exp[k]) for k in exp if got[k] != exp[k]}
                    raise Violation(f"{prop}/shared-bus-request", f"{where}: shared bus differs from the owner's request "
                                    f"(got, expected): {diff}; owner granularity {cfg['intrs'][g]['g']}, bus {cfg['g']}")
                for name, default in (("lock", 0), ("cti", 0), ("bte", 0)):
                    if name in feat:
                        e = (o[name] if has(of, name) else default)
                        gv = ctx.get(Value.cast(getattr(bus, name)))
                        if gv != e:
                            raise Violation(f"{prop}/shared-bus-{name}", f"{where}: bus.{name}={gv}, expected {e} "
                                            f"(owner {'has' if has(of, name) else 'lacks'} {name})")
                for i, f in enumerate(intrs):
                    mine = i == g
                    for k in ("err", "rty"):
                        if has(f, k):
                            e = (tgt[k] if k in feat else 0) if mine else 0
                            if ctx.get(getattr(f, k)) != e:
                                raise Violation(f"{prop}/response-isolation", f"{where}: initiator {i} {k}={ctx.get(getattr(f, k))}, expected {e}")
                    if has(f, "stall"):
                        e = (tgt["stall"] if "stall" in feat else 1 - tgt["ack"]) if mine else 1
                        if ctx.get(f.stall) != e:
                            raise Violation(f"{prop}/stall", f"{where}: initiator {i} stall={ctx.get(f.stall)}, expected {e}")
                    if mine and ctx.get(f.dat_r) != tgt["dat_r"]:
                        raise Violation(f"{prop}/dat_r", f"{where}: owner dat_r={ctx.get(f.dat_r):#x}, target {tgt['dat_r']:#x}")
            busy = bool(o["cyc"]) and (bool(o_lock or o["stb"]) if "lock" in feat else True)
            nxt = next_owner(g, req, busy, n)
            # labels
            if busy and any(req[i] for i in range(n) if i != g):
                stats.label("contended_while_busy")
            if "lock" in feat and o["cyc"] and o_lock and not o["stb"]:
                stats.label("lock_hold_without_stb")
            if "lock" in feat and o["cyc"] and not o_lock and not o["stb"] and any(req[i] for i in range(n) if i != g):
                stats.label("released_by_dropping_stb")
            if busy and tgt["ack"] and o["stb"] and any(req[i] for i in range(n) if i != g):
                stats.label("ack_while_contended")
            if nxt != g:
                stats.add("ownership_changes", 1)
                # bounded waiting: every continuously requesting initiator sees at most n-1 changes
                for i in range(n):
                    if waiting[i] and i != nxt:
                        changes_while_waiting[i] += 1
                        if changes_while_waiting[i] > n - 1:
                            raise Violation(f"{prop}/bounded-wait", f"{where}: initiator {i} has requested continuously "
                                            f"through {changes_while_waiting[i]} grants to others (N={n})")
            for i in range(n):
                if not req[i] or i == nxt:
                    waiting[i] = False
                    changes_while_waiting[i] = 0
                elif not waiting[i]:
                    waiting[i] = True
                    changes_while_waiting[i] = 0
            owner[0] = nxt
            await ctx.tick()

    sim.simulate(top, tb)
    stats.add("simulated_cycles", sched["cycles"])
    stats.label(f"N={n}")
    stats.label("N>=9", n >= 9)
    stats.label("add_after_elaboration", getattr(arb, "mid_elaborated", False))
    style = cfg.get("feat_style", "mixed" if cfg.get("feat_mixed") else "list")
    stats.label("mixed_feature_spelling", style in ("mixed", "tuple", "gen") and len(cfg["feat"]) >= 2)
    stats.label("features_one_shot_iterator", style in ("gen", "iter", "map") and bool(cfg["feat"]))
    stats.label("features_container_tampered", cfg.get("feat_tamper") is not None)
    stats.label("same_signal_names", bool(cfg.get("same_path")) and n >= 2)
    stats.label("value_equal_initiators", bool(cfg.get("eq_intrs")) and n >= 2)
    stats.label("arbiter_has_lock", "lock" in feat)
    stats.label("arbiter_lacks_lock", "lock" not in feat)
    stats.label("mixed_granularity", any(s["g"] != cfg["g"] for s in cfg["intrs"]))
    stats.label("intermediate_granularity", cfg["g"] > 8 and nsel_bus > 1)
    stats.label("owner_lacks_optional", any(set(cfg["feat"]) & {"lock", "cti", "bte"} - set(s["feat"]) for s in cfg["intrs"]))
    stats.label("no_stall_on_bus_compat", "stall" not in feat and any("stall" in s["feat"] for s in cfg["intrs"]))


def transition_table(n, with_lock):
    """Drive the real arbiter through every (owner, request vector, owner stb/lock) combination and
    return {(g, R, stb, lock): g'}. Owners are observed through acknowledge routing."""
    cfg = {"aw": 3, "dw": 8, "g": 8, "feat": ["lock"] if with_lock else [],
           "intrs": [{"g": 8, "feat": ["lock"] if with_lock else []} for _ in range(n)]}
    arb, intrs = build(cfg)
    top = sim.wrap(arb)
    table = {}
    acks = Cat(*[f.ack for f in intrs])

    def apply(ctx, cyc, stb=None, lock=None, g=None):
        for i, f in enumerate(intrs):
            ctx.set(f.cyc, (cyc >> i) & 1)
            ctx.set(f.stb, stb if (i == g and stb is not None) else 0)
            if with_lock:
                ctx.set(f.lock, lock if (i == g and lock is not None) else 0)

    async def observe(ctx):
        ctx.set(arb.bus.ack, 1)
        a = ctx.get(acks)
        ctx.set(arb.bus.ack, 0)
        who = [i for i in range(n) if (a >> i) & 1]
        if len(who) != 1:
            raise Violation("C09/table/owner-not-unique", f"N={n}: acknowledge reaches initiators {who}")
        return who[0]

    async def tb(ctx):
        for g in range(n):
            for R in range(1 << n):
                subs = [(0, 0)]
                if (R >> g) & 1:
                    subs = [(0, 0), (1, 0), (0, 1), (1, 1)] if with_lock else [(1, 0), (0, 0)]
                for stb, lock in subs:
                    # 1. drive ownership to g: only g requests, not holding
                    apply(ctx, 1 << g)
                    await ctx.tick()
                    # it may take a second edge when the previous owner was still busy in that cycle
                    apply(ctx, 1 << g)
                    cur = await observe(ctx)
                    if cur != g:
                        await ctx.tick()
                        cur = await observe(ctx)
                    if cur != g:
                        raise Violation("C09/table/cannot-reach-owner", f"N={n} lock={with_lock}: asked for owner {g}, got {cur}")
                    # 2. apply (R, stb, lock) with the target acknowledging or not during that cycle
                    for ack in (0, 1):
                        if ack:
                            apply(ctx, 1 << g)
                            await ctx.tick()
                            apply(ctx, 1 << g)
                            if await observe(ctx) != g:
                                await ctx.tick()
                                if await observe(ctx) != g:
                                    raise Violation("C09/table/cannot-reach-owner", f"N={n} lock={with_lock}: owner {g}")
                        apply(ctx, R, stb, lock, g)
                        ctx.set(arb.bus.ack, ack)
                        await ctx.tick()
                        ctx.set(arb.bus.ack, 0)
                        apply(ctx, R, stb, lock, g)
                        table[(g, R, stb, lock, ack)] = await observe(ctx)
    sim.simulate(top, tb)
    return table


def transition_samples(n, with_lock, owners, offsets):
    """Like ``transition_table`` for arbiters too large to enumerate: for each owner g of ``owners``
    and each other requester g+d (d in ``offsets``, cyclically), every owner stb/lock combination.
    Returns {(g, R, stb, lock, 0): g'} with R as a bit mask."""
    cfg = {"aw": 3, "dw": 8, "g": 8, "feat": ["lock"] if with_lock else [],
           "intrs": [{"g": 8, "feat": ["lock"] if with_lock else []} for _ in range(n)]}
    arb, intrs = build(cfg)
    top = sim.wrap(arb)
    table = {}
    acks = Cat(*[f.ack for f in intrs])
    state = [0] * n

    def apply(ctx, cyc, stb=0, lock=0, g=None):
        # only touch the initiators whose inputs change (hundreds of ctx.set per cycle are slow)
        for i in set(k for k in range(n) if state[k]) | set(k for k in range(n) if (cyc >> k) & 1):
            v = (cyc >> i) & 1
            ctx.set(intrs[i].cyc, v)
            ctx.set(intrs[i].stb, stb if i == g else 0)
            if with_lock:
                ctx.set(intrs[i].lock, lock if i == g else 0)
            state[i] = v

    async def observe(ctx):
        ctx.set(arb.bus.ack, 1)
        a = ctx.get(acks)
        ctx.set(arb.bus.ack, 0)
        who = [i for i in range(n) if (a >> i) & 1]
        if len(who) != 1:
            raise Violation("C09/table/owner-not-unique", f"N={n}: acknowledge reaches initiators {who}")
        return who[0]

    async def tb(ctx):
        for g in owners:
            for d in offsets:
                o = (g + d) % n
                if o == g:
                    continue
                for stb, lock in ([(0, 0), (1, 0), (0, 1)] if with_lock else [(1, 0), (0, 0)]):
                    for R in ((1 << g) | (1 << o), 1 << o):
                        if not (R >> g) & 1 and (stb or lock):
                            continue
                        apply(ctx, 1 << g)
                        for _ in range(3):
                            await ctx.tick()
                            if await observe(ctx) == g:
                                break
                        else:
                            raise Violation("C09/table/cannot-reach-owner", f"N={n} lock={with_lock}: asked for owner {g}")
                        apply(ctx, R, stb, lock, g)
                        await ctx.tick()
                        table[(g, R, stb, lock, 0)] = await observe(ctx)
    sim.simulate(top, tb)
    return table
