import os, sys, json, hashlib, traceback

REPO = os.path.realpath(os.environ.get("VERIF_REPO", "/repo"))


class Violation(Exception):
    """The code under test disagrees with the oracle. ``bucket`` names the broken clause (one
    bucket per root cause as far as the check can tell); ``detail`` is free text."""
    def __init__(self, bucket, detail=""):
        super().__init__(f"{bucket}: {detail}")
        self.bucket = bucket
        self.detail = detail


class Stats:
    """Per-run label histogram. ``label`` counts *cases* (once per case), ``add`` sums numbers."""
    def __init__(self):
        self.totals = {}
        self._labels = set()
        self._adds = {}
        self.nontrivial = False

    def begin(self):
        self._labels = set()
        self._adds = {}
        self.nontrivial = False

    def label(self, name, cond=True):
        if cond:
            self._labels.add(name)

    def has(self, name):
        return name in self._labels

    def add(self, name, n=1):
        self._adds[name] = self._adds.get(name, 0) + n

    def commit(self):
        for l in self._labels:
            self.totals[l] = self.totals.get(l, 0) + 1
        for k, v in self._adds.items():
            self.totals[k] = self.totals.get(k, 0) + v
        if self.nontrivial:
            self.totals["nontrivial_cases"] = self.totals.get("nontrivial_cases", 0) + 1
        self.totals["cases"] = self.totals.get("cases", 0) + 1


def canon(obj):
    return json.dumps(obj, sort_keys=True, separators=(",", ":"), default=str)


def spec_hash(spec):
    return hashlib.sha256(canon(spec).encode()).digest()[:10]


def _amaranth_dir():
    import amaranth
    return os.path.dirname(os.path.realpath(amaranth.__file__))


def classify_exception(e):
    """An exception that escaped a check. If it was raised inside the code under test (innermost
    frame in amaranth_soc, or in amaranth itself while processing a design) it is a crash on an
    input the check considers legal: return (bucket, detail). Otherwise return None — the harness
    itself is at fault and the runner exits 2 without a verdict."""
    tb = traceback.extract_tb(e.__traceback__)
    if not tb:
        return None
    soc = [f for f in tb if os.path.realpath(f.filename).startswith(REPO + os.sep)]
    # frames of the Python standard library (a dict subclass, weakref, functools...) are transparent:
    # the innermost frame outside it decides whose failure this is
    std = os.path.dirname(os.path.realpath(os.__file__)) + os.sep
    tb = [f for f in tb if not (os.path.realpath(f.filename).startswith(std) and "site-packages" not in f.filename)] or tb
    inner = tb[-1]
    inner_file = os.path.realpath(inner.filename)
    am = _amaranth_dir()
    if isinstance(e, RecursionError):
        if not soc:
            # raised while Amaranth walks a finished design (simulator construction, conversion): the
            # harness contributes no deep expressions of its own, the depth is that of the library's logic
            if inner_file.startswith(am + os.sep):
                return ("crash/RecursionError@amaranth-internal",
                        "RecursionError: maximum recursion depth exceeded while Amaranth processed the design "
                        "(an expression built by the component is too deeply nested)")
            return None
        site = soc[-1]
    elif inner_file.startswith(REPO + os.sep):
        site = inner
    elif inner_file.startswith(am + os.sep):
        site = soc[-1] if soc else inner
    else:
        return None
    rel = os.path.relpath(os.path.realpath(site.filename), REPO if site in soc else os.path.dirname(am))
    bucket = f"crash/{type(e).__name__}@{rel}:{site.name}"
    detail = f"{type(e).__name__}: {str(e)[:500]} (at {rel}:{site.lineno} in {site.name})"
    return bucket, detail


def deliberate_refusal(e):
    """True iff exception ``e`` is a *deliberate* refusal: a ValueError/TypeError (or subclass)
    raised by an explicit ``raise`` statement located in amaranth_soc or amaranth, as opposed to an
    error that escaped from an expression (f-string crash, str.join over ints, not iterable...)."""
    import ast, linecache
    if not isinstance(e, (ValueError, TypeError)):
        return False
    tb = e.__traceback__
    last = None
    while tb is not None:
        last = tb
        tb = tb.tb_next
    if last is None:
        return False
    frame = last.tb_frame
    fn = os.path.realpath(frame.f_code.co_filename)
    if not (fn.startswith(REPO + os.sep) or fn.startswith(_amaranth_dir() + os.sep)):
        return False
    lineno = last.tb_lineno
    try:
        src = "".join(linecache.getlines(fn))
        tree = _AST_CACHE.get(fn)
        if tree is None:
            tree = _AST_CACHE[fn] = ast.parse(src)
    except Exception:
        return False
    # innermost statement containing the line
    best = None
    for node in ast.walk(tree):
        if isinstance(node, ast.stmt) and node.lineno <= lineno <= getattr(node, "end_lineno", node.lineno):
            if best is None or (node.end_lineno - node.lineno) <= (best.end_lineno - best.lineno):
                best = node
    if not isinstance(best, ast.Raise) or best.exc is None:
        return False
    # the raised class must be the class caught (rules out a TypeError thrown while *building*
    # the message of a `raise ValueError(f"...")`); a raise through a helper (`raise self._err(...)`)
    # whose target is not an exception class is accepted
    exc = best.exc
    if isinstance(exc, ast.Call):
        exc = exc.func
    if isinstance(exc, ast.Name):
        import builtins
        target = frame.f_locals.get(exc.id, frame.f_globals.get(exc.id, getattr(builtins, exc.id, None)))
        if isinstance(target, type) and issubclass(target, BaseException):
            return isinstance(e, target)
        if isinstance(target, BaseException):
            return target is e
        return True
    if isinstance(exc, ast.Attribute):
        # e.g. `raise module.SomeError(...)`: compare by class name when it names a class of the MRO, else accept
        names = [c.__name__ for c in type(e).__mro__]
        if exc.attr[:1].isupper() or exc.attr.endswith("Error"):
            return exc.attr in names
        return True
    return True


_AST_CACHE = {}
