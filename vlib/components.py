"""Generated component configurations for C19/C20: strategy per component class and a
deterministic builder spec -> (component, port_signals, info)."""
# amaranth: UnusedElaboratable=no
from hypothesis import strategies as st

from amaranth import Signal
from amaranth.lib import wiring
from amaranth.utils import ceil_log2, exact_log2

from amaranth_soc import csr, wishbone, event, gpio
from amaranth_soc.csr.wishbone import WishboneCSRBridge
from amaranth_soc.csr.event import EventMonitor as CSREventMonitor
from amaranth_soc.wishbone.sram import WishboneSRAM
from amaranth_soc.memory import MemoryMap

from vlib import gens

REAL_ACTIONS = ["R", "W", "RW", "RW1C", "RW1S", "ResRAW0", "ResRAWL", "ResR0WA", "ResR0W0"]
ALL_ACTIONS = REAL_ACTIONS + ["MockR", "MockW", "MockRW", "MockNC"]
TRIGGERS = ["level", "rise", "fall"]


def flat_signals(obj):
    out = []
    for path, member, value in obj.signature.flatten(obj):
        out.append(value)
    return out


# ------------------------------------------------------------------ strategies (one per class)

def s_mux():
    return gens.csr_layout(max_regs=6, huge=True)


def s_csr_decoder():
    return gens.csr_decoder_config()


def _reg_spec():
    # 'fit': the register access mode is derived from the fields (accepted by construction);
    # otherwise it is drawn freely and the register may be refused
    return st.fixed_dictionaries({
        "tree": gens.field_tree(ALL_ACTIONS, enums=True, max_leaves=5),
        "acc": st.sampled_from(["r", "w", "rw", "rw", "rw"]),
        "fit": st.sampled_from([True, True, True, True, False]),
    })


def reg_access(rs):
    if not rs.get("fit"):
        return rs["acc"]
    r, w = gens.tree_access_needed(rs["tree"])
    if r and w:
        return "rw"
    if r:
        return "r" if rs["acc"] != "rw" else "rw"
    if w:
        return "w" if rs["acc"] != "rw" else "rw"
    return rs["acc"]


def _builder_ops(depth=0):
    name = st.sampled_from(["a", "b", "c", "reg", "x0", "mux", "0", "1", "a_b", "a_0", "b_reg"])
    add = st.tuples(st.just("add"), name, _reg_spec(),
                    gens.weighted((6, st.none()), (1, st.integers(0, 24)))).map(list)
    if depth >= 2:
        return st.lists(add, min_size=1, max_size=3)
    sub = st.deferred(lambda: _builder_ops(depth + 1))
    cluster = st.tuples(st.just("cluster"), name, sub).map(list)
    index = st.tuples(st.just("index"), st.integers(0, 3), sub).map(list)
    return st.lists(gens.weighted((3, add), (1, cluster), (1, index)), min_size=1, max_size=4)


@st.composite
def s_csr_bridge(draw):
    dw = draw(st.sampled_from([8, 8, 16, 32]))
    g = draw(st.sampled_from([x for x in (8, 16, 32) if dw % x == 0 and x <= dw]))
    return {"aw": draw(st.sampled_from([2, 4, 6, 8, 8, 10, 10])), "dw": dw, "g": g, "ops": draw(_builder_ops())}


def s_register():
    return st.fixed_dictionaries({
        "tree": gens.field_tree(ALL_ACTIONS, enums=True, max_leaves=8),
        "acc": st.sampled_from(["r", "w", "rw", "rw"]),
        "fit": st.sampled_from([True, True, True, False]),
        "via": st.sampled_from(["arg", "arg", "annot"]),
    })


def s_action():
    return gens.field_leaf(REAL_ACTIONS, enums=True)


def s_event_monitor():
    return st.fixed_dictionaries({"srcs": st.one_of(st.lists(st.sampled_from(TRIGGERS), max_size=10),
                                                    st.lists(st.sampled_from(TRIGGERS), min_size=60, max_size=70)),
                                  "trigger": st.sampled_from(TRIGGERS)})


def s_csr_event_monitor():
    return st.fixed_dictionaries({"srcs": st.one_of(st.lists(st.sampled_from(TRIGGERS), max_size=20),
                                                    st.lists(st.sampled_from(TRIGGERS), min_size=60, max_size=75)),
                                  "trigger": st.sampled_from(TRIGGERS),
                                  "dw": st.sampled_from([1, 4, 8, 8, 16]),
                                  "al": st.integers(0, 3)})


def s_wb_csr_bridge():
    return st.fixed_dictionaries({"csr_dw": st.sampled_from([8, 8, 16, 32, 64, 4, 24]),
                                  "csr_aw": st.integers(1, 8),
                                  "wb_dw": st.sampled_from([None, 8, 16, 32, 64, 24]),
                                  "named": st.booleans()})


def s_wb_decoder():
    return gens.wb_decoder_config()


@st.composite
def s_wb_arbiter(draw):
    geo = draw(gens.wb_geometry(max_aw=6))
    n = draw(st.integers(0, 6))
    intrs = []
    for _ in range(n):
        g = draw(st.sampled_from([x for x in (8, 16, 32, 64) if geo["g"] <= x <= geo["dw"]]))
        feat = draw(gens.wb_features())
        if draw(st.integers(0, 4)) > 0:
            feat = sorted(set(feat) | ({"err", "rty"} & set(geo["feat"])))
        intrs.append({"g": g, "feat": feat})
    return dict(geo, intrs=intrs)


@st.composite
def s_sram(draw):
    dw = draw(st.sampled_from([8, 16, 32, 64]))
    if draw(st.integers(0, 5)):
        g = draw(st.sampled_from([None] + [x for x in (8, 16, 32, 64) if x <= dw]))
        lo = 0 if (g or dw) < dw else 1          # a single-row memory needs granularity < data width
        size = (dw // (g or dw)) << draw(st.sampled_from([lo, lo, 1, 1, 2, 3, 4, 5, 6]))
        depth = (size * (g or dw)) // dw
        init = draw(st.lists(st.integers(0, 255), max_size=min(depth, 6)))
    else:
        g = draw(st.sampled_from([None, 8, 16, 32, 64]))
        size = draw(st.sampled_from([1, 2, 4, 3, 0, 256]))
        init = draw(st.lists(st.integers(0, 255), max_size=6))
    return {"size": size, "dw": dw, "g": g, "writable": draw(st.booleans()), "init": init}


@st.composite
def s_gpio(draw):
    dw = draw(st.sampled_from([8, 8, 16, 32]))
    pins = draw(st.integers(0, 20)) if draw(st.integers(0, 7)) == 0 else draw(st.integers(1, 20))
    # address bits needed by Mode/Input/Output/SetClr under natural alignment
    def span(w):
        c = max(1, -(-w // dw))
        return 1 << (c - 1).bit_length()
    cur = 0
    for w in (2 * pins, pins, pins, 2 * pins):
        sp = span(w)
        cur = -(-cur // sp) * sp + sp
    need = max(1, (cur - 1).bit_length())
    return {"pins": pins, "aw": max(1, need + draw(st.sampled_from([0, 0, 0, 1, 2, -1]))), "dw": dw,
            "stages": draw(st.integers(0, 3))}


CLASSES = {
    "mux": s_mux, "csr_decoder": s_csr_decoder, "csr_bridge": s_csr_bridge, "register": s_register,
    "action": s_action, "event_monitor": s_event_monitor, "csr_event_monitor": s_csr_event_monitor,
    "wb_csr_bridge": s_wb_csr_bridge, "wb_decoder": s_wb_decoder, "wb_arbiter": s_wb_arbiter,
    "sram": s_sram, "gpio": s_gpio,
}


def component_spec():
    return st.sampled_from(sorted(CLASSES)).flatmap(
        lambda c: CLASSES[c]().map(lambda p: {"cls": c, "p": p}))


# ------------------------------------------------------------------ builders

class Built:
    def __init__(self, comp, ports, subobjects, bus_ports=()):
        self.comp = comp
        self.ports = ports            # every signal to list as a port for rtlil.convert
        self.subobjects = subobjects  # number of registers / windows / initiators / sources / pins
        self.bus_ports = bus_ports    # [(name, role)] role in {"csr_target","wb_target","wb_initiator_out"}


def make_register(rs):
    fields = gens.tree_to_fields(rs["tree"])
    acc = reg_access(rs)
    if rs.get("via") == "annot" and "d" in rs["tree"]:
        cls = type("AnnotReg", (csr.Register,), {"__annotations__": dict(fields)})
        return cls(access=acc)
    return csr.Register(fields, access=acc)


def build(spec):
    c, p = spec["cls"], spec["p"]
    if c == "mux":
        comp, regs = gens.build_csr_mux(dict(p, mid_elab=False), p.get("ov"))
        ports = flat_signals(comp)
        for r, _, _ in regs:
            ports += flat_signals(r)
        aw, _ = gens.plan_csr_layout(p)
        return Built(comp, ports, len(regs), [("bus", "csr_target", {"addr_width": aw, "data_width": p["dw"]})])
    if c == "csr_decoder":
        comp, ifaces, _ = gens.build_csr_decoder(p)
        ports = flat_signals(comp)
        for iface in ifaces:
            ports += flat_signals(iface)
        return Built(comp, ports, len(ifaces), [("bus", "csr_target", comp.verif_ctor)])
    if c == "csr_bridge":
        b = csr.Builder(addr_width=p["aw"], data_width=p["dw"], granularity=p["g"])
        count = [0]

        def run(ops):
            for op in ops:
                if op[0] == "add":
                    b.add(op[1], make_register(op[2]), offset=op[3])
                    count[0] += 1
                elif op[0] == "cluster":
                    with b.Cluster(op[1]):
                        run(op[2])
                else:
                    with b.Index(op[1]):
                        run(op[2])
        run(p["ops"])
        comp = csr.Bridge(b.as_memory_map())
        return Built(comp, flat_signals(comp), count[0], [("bus", "csr_target", {"addr_width": p["aw"], "data_width": p["dw"]})])
    if c == "register":
        comp = make_register(p)
        ports = flat_signals(comp)
        for _, f in comp:
            ports += flat_signals(f)
        return Built(comp, ports, len(list(comp)))
    if c == "action":
        comp = gens.make_field(p).create()
        return Built(comp, flat_signals(comp), 2)
    if c in ("event_monitor", "csr_event_monitor"):
        emap = event.EventMap()
        srcs = []
        for i, t in enumerate(p["srcs"]):
            s = event.Source(trigger=t, path=(f"src{i}",))
            emap.add(s)
            srcs.append(s)
        if c == "event_monitor":
            comp = event.Monitor(emap, trigger=p["trigger"])
            bus_ports = []
        else:
            comp = CSREventMonitor(emap, trigger=p["trigger"], data_width=p["dw"], alignment=p["al"])
            bus_ports = [("bus", "csr_target", {"data_width": p["dw"]})]
        ports = flat_signals(comp)
        for s in srcs:
            ports += flat_signals(s)
        return Built(comp, ports, len(srcs), bus_ports)
    if c == "wb_csr_bridge":
        iface = csr.Interface(addr_width=p["csr_aw"], data_width=p["csr_dw"], path=("csr",))
        iface.memory_map = MemoryMap(addr_width=p["csr_aw"], data_width=p["csr_dw"])
        comp = WishboneCSRBridge(iface, data_width=p["wb_dw"], name=("csrs",) if p["named"] else None)
        wbdw = p["wb_dw"] or p["csr_dw"]
        return Built(comp, flat_signals(comp) + flat_signals(iface), 2,
                     [("wb_bus", "wb_target", {"addr_width": p["csr_aw"] - ((wbdw // p["csr_dw"]).bit_length() - 1),
                                               "data_width": wbdw, "granularity": p["csr_dw"], "features": []})])
    if c == "wb_decoder":
        comp, ifaces, _ = gens.build_wb_decoder(p)
        ports = flat_signals(comp)
        for iface in ifaces:
            ports += flat_signals(iface)
        return Built(comp, ports, len(ifaces), [("bus", "wb_target", comp.verif_ctor)])
    if c == "wb_arbiter":
        comp = wishbone.Arbiter(addr_width=p["aw"], data_width=p["dw"], granularity=p["g"],
                                features=p["feat"])
        ports = flat_signals(comp)
        for i, s in enumerate(p["intrs"]):
            iface = wishbone.Interface(addr_width=p["aw"], data_width=p["dw"], granularity=s["g"],
                                       features=s["feat"], path=(f"intr{i}",))
            comp.add(iface)
            ports += flat_signals(iface)
        return Built(comp, ports, len(p["intrs"]), [("bus", "wb_initiator_out",
                     {"addr_width": p["aw"], "data_width": p["dw"], "granularity": p["g"], "features": p["feat"]})])
    if c == "sram":
        comp = WishboneSRAM(size=p["size"], data_width=p["dw"], granularity=p["g"],
                            writable=p["writable"], init=p["init"])
        g = p["g"] or p["dw"]
        return Built(comp, flat_signals(comp), 2, [("wb_bus", "wb_target",
                     {"addr_width": ((p["size"] * g) // p["dw"]).bit_length() - 1, "data_width": p["dw"], "granularity": g, "features": []})])
    if c == "gpio":
        comp = gpio.Peripheral(pin_count=p["pins"], addr_width=p["aw"], data_width=p["dw"],
                               input_stages=p["stages"])
        return Built(comp, flat_signals(comp), p["pins"], [("bus", "csr_target", {"addr_width": p["aw"], "data_width": p["dw"]})])
    raise KeyError(c)
