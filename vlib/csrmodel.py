"""Reference model of the CSR multiplexer bus protocol, written from the docstrings of
csr.Interface / csr.Multiplexer and the statements of C04/C05 (no shadow registers, no address hash),
plus the conforming / arbitrary stimulus generators that drive it."""
import hashlib
from hypothesis import strategies as st


def hval(seed, a, b, width):
    """Deterministic pseudo-random value: pure function of (seed, a, b)."""
    if width <= 0:
        return 0
    h = int.from_bytes(hashlib.blake2b(f"{seed}/{a}/{b}".encode(), digest_size=24).digest(), "big")
    mask = (1 << width) - 1
    sel, h = h & 31, h >> 5
    if width >= 4 and sel < 5:
        # one in six values is a boundary pattern: all zeros, all ones, lowest bit, highest bit, alternating
        return [0, mask, 1, 1 << (width - 1), 0x5555555555555555555555555555555555555555 & mask][sel]
    return h & mask


class Reg:
    __slots__ = ("start", "end", "width", "readable", "writable")

    def __init__(self, start, end, width, access):
        self.start, self.end, self.width = start, end, width
        self.readable = "r" in access
        self.writable = "w" in access


class Expect:
    """Expected outputs in one cycle."""
    __slots__ = ("r_data", "r_data_known", "r_stb", "w_stb", "w_data", "w_mask")


class MuxModel:
    def __init__(self, dw, regs, conservative=False):
        """``conservative``: for bus activity that is not known to follow the CSR protocol register by
        register (e.g. produced by a Wishbone bridge): a register's captured snapshot is forgotten as
        soon as another register's first chunk is read (their shadow chunks may be shared), and a new
        write transaction starts whenever the written register changes."""
        self.dw = dw
        self.regs = regs
        self.conservative = conservative
        self.last_w = None
        self.snap = [None] * len(regs)          # value captured at the last first-chunk read
        self.wbuf = [dict() for _ in regs]      # chunk -> value written in the current transaction
        self.txn = [None] * len(regs)
        self.pend_r = (0, True)                 # (value, known) for bus.r_data in the next cycle
        self.pend_w = [False] * len(regs)

    def find(self, addr):
        for i, r in enumerate(self.regs):
            if r.start <= addr < r.end:
                return i
        return None

    def step(self, addr, r_stb, w_stb, w_data, values, txn=None):
        """Inputs of this cycle -> Expect for this cycle; then advance."""
        dw = self.dw
        e = Expect()
        e.r_data, e.r_data_known = self.pend_r
        e.w_stb = list(self.pend_w)
        e.w_data, e.w_mask = [0] * len(self.regs), [0] * len(self.regs)
        for i, r in enumerate(self.regs):
            if self.pend_w[i]:
                val = mask = 0
                for c, v in self.wbuf[i].items():
                    val |= v << (c * dw)
                    mask |= ((1 << dw) - 1) << (c * dw)
                full = (1 << r.width) - 1
                e.w_data[i], e.w_mask[i] = val & full, mask & full
        e.r_stb = [False] * len(self.regs)
        i = self.find(addr)
        nxt_r = (0, True)
        nxt_w = [False] * len(self.regs)
        if i is not None:
            r = self.regs[i]
            c = addr - r.start
            if r_stb and r.readable:
                if c == 0:
                    e.r_stb[i] = True
                    if self.conservative:
                        self.snap = [None] * len(self.regs)
                    self.snap[i] = values[i] & ((1 << r.width) - 1)
                if self.snap[i] is None:
                    nxt_r = (0, False)
                else:
                    nxt_r = ((self.snap[i] >> (c * dw)) & ((1 << dw) - 1), True)
            if w_stb and r.writable:
                if self.conservative:
                    if self.last_w != i:
                        self.wbuf[i] = {}
                    self.last_w = i
                elif self.txn[i] != txn or txn is None:
                    if txn is not None:
                        self.wbuf[i] = {}
                    self.txn[i] = txn
                self.wbuf[i][c] = w_data & ((1 << dw) - 1)
                if addr == r.end - 1:
                    nxt_w[i] = True
        self.pend_r, self.pend_w = nxt_r, nxt_w
        return e


# ------------------------------------------------------------------------------------- stimuli

def conforming_stimulus(max_txn=12, min_txn=1, modes=("r", "r", "w", "w", "rw")):
    txn = st.fixed_dictionaries({
        "reg": st.integers(0, 7),
        "mode": st.sampled_from(list(modes)),
        "len": st.sampled_from(["full", "full", "full", "abort", "skip"]),
        "k": st.integers(0, 255),        # abort point / skip mask
        "gap": st.sampled_from([0, 0, 0, 1, 2]),     # idle cycles before the transaction
        "inner_gap": st.sampled_from([0, 0, 0, 1]),  # idle cycles between its accesses
        "unmapped": st.sampled_from([None, None, None, "r", "w", "rw"]),  # access to an unmapped address first
        # written value: random per chunk, or a whole-register pattern (one-hot at bit k, all ones, all zeros)
        "pat": st.sampled_from([None, None, None, None, "onehot", "onehot", "ones", "zero"]),
    })
    return st.fixed_dictionaries({"kind": st.just("conf"), "txns": st.lists(txn, min_size=min_txn, max_size=max_txn),
                                  "dseed": st.integers(0, 1 << 30)})


def arbitrary_stimulus():
    return st.fixed_dictionaries({"kind": st.just("arb"), "cycles": st.integers(10, 120),
                                  "dseed": st.integers(0, 1 << 30),
                                  "bias": st.sampled_from(["uniform", "regs", "regs", "hold"])})


def flatten(stim, regs, aw, dw):
    """-> list of (addr, r_stb, w_stb, w_data, txn_id, note) per cycle, plus a list of facts about
    the transactions (for labels). Pure function of the spec and the layout."""
    cycles, facts = [], []
    seed = stim["dseed"]
    mapped = set()
    for r in regs:
        mapped.update(range(r.start, r.end))
    unmapped = [a for a in range(1 << aw) if a not in mapped]
    if stim["kind"] == "arb":
        n = stim["cycles"]
        hot = sorted(mapped) or [0]
        held = 0
        for t in range(n):
            if stim["bias"] == "uniform":
                addr = hval(seed, "a", t, aw)
            elif stim["bias"] == "regs":
                addr = hot[hval(seed, "a", t, 16) % len(hot)] if hval(seed, "u", t, 3) else hval(seed, "a", t, aw)
            else:
                if hval(seed, "h", t, 2) == 0:
                    held = hot[hval(seed, "a", t, 16) % len(hot)]
                addr = held
            s = hval(seed, "s", t, 3)
            r_stb, w_stb = (s & 1, (s >> 1) & 1) if s < 6 else (1, 1) if s == 6 else (0, 0)
            cycles.append((addr, r_stb, w_stb, hval(seed, "w", t, dw), None, "arb"))
        return cycles, facts
    tid = 0
    for n, x in enumerate(stim["txns"]):
        for _ in range(x["gap"]):
            cycles.append((hval(seed, "ia", len(cycles), aw), 0, 0, hval(seed, "iw", len(cycles), dw), None, "idle"))
        if x["unmapped"] and unmapped:
            a = unmapped[x["k"] % len(unmapped)]
            cycles.append((a, int("r" in x["unmapped"]), int("w" in x["unmapped"]), hval(seed, "uw", n, dw), None, "unmapped"))
            facts.append(("unmapped", None))
        ri = x["reg"] % len(regs)
        r = regs[ri]
        size = r.end - r.start
        idx = list(range(size))
        if x["len"] == "abort" and size > 1:
            idx = idx[:1 + x["k"] % (size - 1)] if size > 1 else idx
        elif x["len"] == "skip" and size > 1:
            keep = [c for c in idx if c == 0 or (x["k"] >> (c % 8)) & 1]
            if x["mode"] == "w" and (x["k"] >> 7) & 1 and len(keep) > 1:
                keep = keep[1:]          # a write may start anywhere
            idx = keep
        tid += 1
        for j, c in enumerate(idx):
            if j and x["inner_gap"]:
                cycles.append((r.start + c, 0, 0, hval(seed, "gw", len(cycles), dw), tid, "inner-idle"))
            pat = x.get("pat")
            if pat and r.width:
                w_ = r.width
                bit = [0, w_ - 1, 63 % w_, 64 % w_, 31 % w_, 32 % w_, x["k"] % w_, (x["k"] * 7) % w_][x["k"] % 8]
                whole = {"onehot": 1 << bit, "ones": (1 << w_) - 1, "zero": 0}[pat]
                wd = (whole >> (c * dw)) & ((1 << dw) - 1)
            else:
                wd = hval(seed, "d", f"{n}.{c}", dw)
            cycles.append((r.start + c, int("r" in x["mode"]), int("w" in x["mode"]), wd, tid, "access"))
        complete = idx == list(range(size))
        facts.append((x["mode"], ri, complete, x["len"], x["inner_gap"], len(idx)))
    cycles.append((0, 0, 0, 0, None, "drain"))
    cycles.append((0, 0, 0, 0, None, "drain"))
    return cycles, facts
