"""Coverage-guided campaign (atheris / libFuzzer) over a property's Hypothesis strategy.

    python -m vlib.fuzz <ID> <seed> <runs> <outfile> <include-module>[,<include-module>...]

The bytes libFuzzer mutates are decoded by Hypothesis (`test.hypothesis.fuzz_one_input`) into the same
JSON specs the property's strategy generates, and the same `check` (oracle inside the target) runs on
them; coverage feedback comes from the instrumented amaranth_soc modules. Violations are bucketed and
the search continues; results are written to <outfile> periodically (libFuzzer ends the process itself).
"""
import os, sys, json, time, tempfile, shutil

HERE = os.path.dirname(os.path.dirname(os.path.abspath(__file__)))
sys.path.insert(0, os.path.join(HERE, ".deps"))
sys.path.insert(0, os.environ.get("VERIF_REPO", "/repo"))
sys.path.insert(0, HERE)


def main(argv):
    pid, seed, runs, outfile, include = argv[0], int(argv[1]), int(argv[2]), argv[3], argv[4].split(",")
    import atheris
    with atheris.instrument_imports(include=include):
        for m in include:
            __import__(m)
    from hypothesis import given, settings, HealthCheck
    from vlib.runner import load_prop, run_one
    from vlib.common import Stats, spec_hash
    mod = load_prop(pid)
    stats = Stats()
    state = {"executions": 0, "buckets": {}, "nontrivial": set(), "t0": time.time(), "harness_error": None}

    def dump():
        tmp = outfile + ".tmp"
        with open(tmp, "w") as f:
            json.dump({"executions": state["executions"], "buckets": state["buckets"],
                       "nontrivial": len(state["nontrivial"]), "stats": stats.totals,
                       "wall": time.time() - state["t0"], "harness_error": state["harness_error"]}, f)
        os.replace(tmp, outfile)

    @settings(database=None, deadline=None, suppress_health_check=list(HealthCheck))
    @given(mod.strategy("thorough"))
    def test(spec):
        stats.begin()
        try:
            r = run_one(mod, spec, stats)
        except Exception as e:       # harness error: record, keep going
            import traceback
            state["harness_error"] = "".join(traceback.format_exception(type(e), e, e.__traceback__))[-3000:]
            r = None
        state["executions"] += 1
        if stats.nontrivial:
            state["nontrivial"].add(spec_hash(spec).hex())
        stats.commit()
        if r is not None:
            b = state["buckets"].setdefault(r[0], {"count": 0, "spec": spec, "detail": r[1]})
            b["count"] += 1
            if len(json.dumps(spec)) < len(json.dumps(b["spec"])):
                b["spec"], b["detail"] = spec, r[1]
        if state["executions"] % 500 == 0:
            dump()

    corpus = tempfile.mkdtemp(prefix="verif-corpus-")
    try:
        atheris.Setup([sys.argv[0], f"-runs={runs}", f"-seed={seed if seed else 1}", "-max_len=4096",
                       "-print_final_stats=0", "-verbosity=0", corpus], test.hypothesis.fuzz_one_input)
        import atexit
        dump()
        try:
            atheris.Fuzz()
        finally:
            dump()
    finally:
        shutil.rmtree(corpus, ignore_errors=True)


if __name__ == "__main__":
    main(sys.argv[1:])
