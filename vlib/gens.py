"""Shared strategies (JSON-able specs) and the deterministic builders that turn a spec into real
amaranth-soc objects. All randomness lives in the strategies."""
# amaranth: UnusedElaboratable=no
import enum as py_enum
from hypothesis import strategies as st

from amaranth import Module, unsigned, signed
from amaranth.lib import enum, wiring
from amaranth.lib.wiring import In, Out
from amaranth.utils import ceil_log2

from amaranth_soc import csr, wishbone, event
from amaranth_soc.csr import action
from amaranth_soc.memory import MemoryMap


def align_up(v, k):
    m = 1 << k
    return ((v + m - 1) // m) * m


SIM_PROPS = ("C04", "C05", "C06", "C07", "C08", "C09", "C10", "C12", "C13", "C14", "C15", "C16")


def _strip(spec):
    return {k: v for k, v in spec.items() if k != "companions"}


def _prop_strategy(pid):
    import importlib
    return importlib.import_module(f"vlib.props.{pid}").strategy("quick").map(_strip)


def with_pre(strategy, prelude=True, flush=0):
    """Add the 'pre' key (0, 0, 0, 1 or 2 throw-away elaborations before simulating) to a dict spec
    and, for one case in six, 'companions': other cases that share the design with this one (see
    sim.run_case) - an identically configured twin, an independent case of the same property, or a
    case of another property (a different library component)."""
    base = st.tuples(strategy, st.sampled_from([0, 0, 0, 1, 2])).map(lambda t: dict(t[0], pre=t[1]))
    if prelude:
        # one case in six starts from a domain reset that follows some cycles of garbage on all inputs
        pl = st.fixed_dictionaries({"cycles": st.integers(1, 12), "dseed": st.integers(0, 1 << 30), "flush": st.just(flush)})
        plain = base
        base = weighted((10, plain), (2, st.tuples(plain, pl).map(lambda t: dict(t[0], prelude=t[1]))),
                        (1, plain.map(lambda t: dict(t, reset_less_domain=True))))
    common = {"delay": st.sampled_from([0, 1, 1, 2, 3, 5]), "first": st.booleans()}
    twin = st.fixed_dictionaries(dict(common, kind=st.just("twin"), reseed=st.booleans()))
    other = st.fixed_dictionaries(dict(common, kind=st.just("other"), spec=base))
    cross = st.sampled_from(SIM_PROPS).flatmap(lambda pid: st.fixed_dictionaries(
        dict(common, kind=st.just("cross"), prop=st.just(pid), spec=st.deferred(lambda: _prop_strategy(pid)))))
    comp = weighted((3, twin), (2, other), (1, cross))
    grouped = st.tuples(base, st.lists(comp, min_size=1, max_size=2)).map(lambda t: dict(t[0], companions=t[1]))
    return weighted((5, base), (1, grouped))


def weighted(*pairs):
    """one_of with integer weights. (one_of de-duplicates identical strategy *objects*, so repeating
    an object does not weight it; each repetition is wrapped in its own .map().)"""
    out = []
    for w, s in pairs:
        for _ in range(w):
            out.append(s.map(lambda x: x))
    return st.one_of(*out)


# ----------------------------------------------------------------------------- mock CSR registers

class MockReg(wiring.Component):
    """A register with no logic: the testbench drives element.r_data and observes the strobes."""
    def __init__(self, width, access):
        super().__init__({"element": Out(csr.Element.Signature(width, access))})

    def elaborate(self, platform):
        return Module()


class MockRegEq(MockReg):
    """Registers with value semantics: all instances compare equal and hash alike (a user class whose
    registers are 'equal when their description is equal'). The library goes by object identity."""
    def __eq__(self, other):
        return isinstance(other, MockRegEq)

    def __hash__(self):
        return 11


CSR_DWS = (1, 2, 3, 4, 5, 8, 8, 13, 16)


@st.composite
def csr_layout(draw, max_regs=6, dws=CSR_DWS, overlaps=True, high=None, huge=False):
    if draw(st.integers(0, 4)) == 0:
        # "packed odd" family: registers of 2,3,5,6,7 words placed back to back without natural
        # alignment, so that shadow chunks wrap around onto neighbouring registers (nested aliasing)
        dw = draw(st.sampled_from([1, 2, 4, 8] if dws is CSR_DWS else list(dws)))
        n = draw(st.integers(2, max_regs))
        regs = [{"w": dw * draw(st.sampled_from([1, 2, 3, 3, 5, 6, 6, 7])) - draw(st.sampled_from([0, 0, 1]) if dw > 1 else st.just(0)),
                 "acc": draw(st.sampled_from(["r", "w", "rw", "rw", "rw"])), "mode": "gap",
                 "gap": draw(st.sampled_from([0, 0, 0, 1, 2, 3])), "pad": 0} for _ in range(n)]
        lay = {"dw": dw, "al": 0, "regs": regs, "extra_aw": draw(st.integers(0, 1)),
               # registers added after the multiplexer exists / after it was elaborated once
               "late": draw(st.sampled_from([0, 0, 1, 2, 3])), "mid_elab": draw(st.booleans())}
        if overlaps:
            lay["ov"] = draw(st.sampled_from([None, None, 0, 1, 1, 2, 3]))
        return lay
    if draw(st.integers(0, 9)) == 0:
        # "aliased" family: naturally aligned registers whose addresses agree in their low bits
        # (slots that are multiples of 2**k), so that a finite sharing limit is only met once a
        # particular high address bit is decoded - possibly the top one, with the highest register
        # starting exactly at a power of two
        dw = draw(st.sampled_from([1, 2, 4, 8] if dws is CSR_DWS else list(dws)))
        k = draw(st.sampled_from([1, 2, 3, 4, 5, 8, 13, 13]))
        if huge and draw(st.integers(0, 1)) == 0:
            k = draw(st.sampled_from([13, 31, 33, 40]))        # aliases that only a very high address bit separates
        slots = sorted(draw(st.lists(st.sampled_from([0, 1, 2, 3, 4, 5, 8, 16, 32]), min_size=2, max_size=max(2, min(max_regs, 5)), unique=True)))
        regs, cursor = [], 0
        for p_ in slots:
            size = draw(st.sampled_from([x for x in (1, 1, 2, 4) if x <= (1 << k)]))
            regs.append({"w": dw * size - draw(st.sampled_from([0, 0, 1]) if dw > 1 else st.just(0)),
                         "acc": draw(st.sampled_from(["r", "w", "rw", "rw", "rw"])), "mode": "gap",
                         "gap": (p_ << k) - cursor, "pad": 0})
            cursor = (p_ << k) + size
        lay = {"dw": dw, "al": 0, "regs": regs, "extra_aw": draw(st.integers(0, 1)), "family": "aliased"}
        if overlaps:
            lay["ov"] = draw(st.sampled_from([None, 0, 0, 0, 1, 1, 2]))
        return lay
    dw = draw(st.sampled_from(dws))
    al = draw(st.sampled_from([0, 0, 0, 1, 2]))
    n = draw(st.integers(1, max_regs))
    regs = []
    for _ in range(n):
        w = draw(st.sampled_from([0, 1, max(dw - 1, 0), dw, dw, dw + 1, 2 * dw, 2 * dw, 2 * dw + 1,
                                  3 * dw, 3 * dw - 1, 4 * dw, 5 * dw]))
        regs.append({
            "w": w,
            "acc": draw(st.sampled_from(["r", "w", "rw", "rw"])),
            "mode": draw(st.sampled_from(["imp", "nat", "gap", "gap"])),
            "gap": draw(st.integers(0, 3)),
            "pad": draw(st.sampled_from([0, 0, 0, 1, 2])),
        })
    lay = {"dw": dw, "al": al, "regs": regs, "extra_aw": draw(st.integers(0, 1))}
    # registers added to the (still unfrozen) map after the multiplexer object exists, optionally
    # after the multiplexer was already elaborated once
    lay["late"] = draw(st.sampled_from([0, 0, 0, 0, 1, 2]))
    lay["mid_elab"] = draw(st.booleans())
    # Python-level circumstances that must not matter: registers with value equality, the map
    # assigned through bus.memory_map after construction over another one, a trivial subclass
    lay["valeq"] = draw(st.sampled_from([False] * 4 + [True]))
    lay["remap"] = draw(st.sampled_from([False] * 5 + [True]))
    lay["subclass"] = draw(st.sampled_from([False] * 5 + [True]))
    if overlaps:
        lay["ov"] = draw(st.sampled_from([None, None, 0, 1, 2, 3]))
    if overlaps if high is None else high:
        # occasionally the whole layout sits at a high base address (beyond 8 / 13 address bits)
        lay["base"] = draw(st.sampled_from([0] * 10 + [250, 256, 257, 300, 1000, 8192, 8195, 20000]))
        if draw(st.integers(0, 11)) == 0 and n >= 2:
            regs[draw(st.integers(1, n - 1))]["far"] = 8192      # one register 2**13 addresses further on
        if draw(st.integers(0, 39)) == 0 and dw <= 4:
            # one very long register (more than 256 bus words)
            regs[0] = {"w": dw * draw(st.integers(258, 262)), "acc": draw(st.sampled_from(["w", "w", "rw"])),
                       "mode": "imp", "gap": 0, "pad": 0}
            del regs[2:]
    return lay


def plan_csr_layout(lay):
    """Pure arithmetic: where each register is expected to be placed. Returns (aw, [(start, end)])."""
    dw, al = lay["dw"], lay["al"]
    cursor = align_up(lay.get("base", 0), al)
    out = []
    for r in lay["regs"]:
        size = max(1, -(-r["w"] // dw)) + r["pad"]
        if r["mode"] == "imp":
            eff = al
            start = align_up(cursor, eff)
        elif r["mode"] == "nat":
            eff = max(al, ceil_log2(size))
            start = align_up(cursor, eff)
        else:
            eff = al
            start = align_up(cursor + r["gap"], al)
        if r.get("far"):
            start += align_up(r["far"], eff)
        end = start + align_up(size, eff)
        out.append((start, end))
        cursor = end
    aw = max(1, ceil_log2(max(cursor, 1))) + lay["extra_aw"]
    return aw, out


def build_csr_mux(lay, ov=None, name_prefix="r"):
    """Build map + multiplexer of a layout, honouring lay['late'] (registers added after the
    Multiplexer object was constructed) and lay['mid_elab'] (the multiplexer is elaborated once
    before the late registers are added). Returns (multiplexer, [(reg, start, end)])."""
    n = len(lay["regs"])
    late = min(lay.get("late", 0), n - 1)
    factory = MockRegEq if lay.get("valeq") else MockReg
    mm, regs = build_csr_map(lay, factory, name_prefix=name_prefix, count=n - late)
    cls = sub_of(csr.Multiplexer, lay.get("subclass"))
    if lay.get("remap"):
        # built over some other map of the same geometry first; the real one is assigned through
        # the public setter of bus.memory_map afterwards
        decoy = MemoryMap(addr_width=mm.addr_width, data_width=mm.data_width)
        decoy.add_resource(MockReg(lay["dw"] * 2 + 1, "rw"), name=("decoy",), size=3, addr=(1 << mm.addr_width) - 3 if mm.addr_width >= 2 else 0) \
            if mm.addr_width >= 2 else decoy.add_resource(MockReg(1, "rw"), name=("decoy",), size=1)
        mux = cls(decoy, shadow_overlaps=ov)
        mux.bus.memory_map = mm
    else:
        mux = cls(mm, shadow_overlaps=ov)
    if late:
        if lay.get("mid_elab"):
            from amaranth.hdl import Fragment
            try:
                Fragment.get(mux, None)
            except ValueError:
                pass          # a deliberately refused (unbalanceable) intermediate layout
        try:
            _, regs = build_csr_map(lay, factory, name_prefix=name_prefix, into=(mm, regs))
        except ValueError:
            # the map no longer accepts registers (e.g. frozen by the multiplexer): whether that is
            # allowed is C02's/C19's business; here the layout is simply built in the usual order
            return build_csr_mux(dict(lay, late=0), ov, name_prefix)
    return mux, regs


def build_csr_map(lay, reg_factory=MockReg, name_prefix="r", count=None, into=None):
    """Build the MemoryMap of a layout. Returns (memory_map, [(reg, start, end)]). ``count``: only
    the first registers; ``into``: continue a partially built (map, regs)."""
    aw, plan = plan_csr_layout(lay)
    dw, al = lay["dw"], lay["al"]
    if into is None:
        mm = MemoryMap(addr_width=aw, data_width=dw, alignment=al)
        regs = []
    else:
        mm, regs = into
    for i, (r, (ps, pe)) in enumerate(zip(lay["regs"], plan)):
        if i < len(regs) or (count is not None and i >= count):
            continue
        reg = reg_factory(r["w"], r["acc"])
        size = max(1, -(-r["w"] // dw)) + r["pad"]
        if r.get("far"):
            s, e = mm.add_resource(reg, name=(f"{name_prefix}{i}",), size=size, addr=ps,
                                   **({"alignment": ceil_log2(size)} if r["mode"] == "nat" else {}))
        elif lay.get("base") and r["mode"] in ("imp", "nat"):
            # same placement arithmetic, but stated explicitly because the layout does not start at 0
            kw = {"alignment": ceil_log2(size)} if r["mode"] == "nat" else {}
            s, e = mm.add_resource(reg, name=(f"{name_prefix}{i}",), size=size, addr=ps, **kw)
        elif r["mode"] == "imp":
            s, e = mm.add_resource(reg, name=(f"{name_prefix}{i}",), size=size)
        elif r["mode"] == "nat":
            s, e = mm.add_resource(reg, name=(f"{name_prefix}{i}",), size=size, alignment=ceil_log2(size))
        else:
            s, e = mm.add_resource(reg, name=(f"{name_prefix}{i}",), size=size, addr=ps)
        regs.append((reg, s, e))
    return mm, regs


# ----------------------------------------------------------------------------- field shapes/trees

class E2(enum.Enum, shape=unsigned(2)):
    A = 0
    B = 1
    C = 2


class F3(enum.Flag, shape=unsigned(3)):
    A = 1
    B = 2
    C = 4


class ES(enum.Enum, shape=signed(3)):
    N = -2
    Z = 0
    P = 3


from amaranth.lib import data as _data
ARR = _data.ArrayLayout(unsigned(2), 3)
STRUCT = _data.StructLayout({"a": unsigned(2), "b": signed(3)})


def shape_of(s):
    if s[0] == "u":
        return unsigned(s[1])
    if s[0] == "s":
        return signed(s[1])
    return {"enum": E2, "flag": F3, "senum": ES, "arr": ARR, "struct": STRUCT}[s[0]]


def shape_width(s):
    if s[0] in ("u", "s"):
        return s[1]
    return {"enum": 2, "flag": 3, "senum": 3, "arr": 6, "struct": 5}[s[0]]


def shape_strategy(enums=True, max_w=9):
    opts = [st.tuples(st.just("u"), st.integers(0, max_w)).map(list),
            st.tuples(st.just("u"), st.integers(1, 4)).map(list),
            st.tuples(st.just("s"), st.integers(1, 6)).map(list)]
    if enums:
        opts += [st.just(["enum"]), st.just(["flag"]), st.just(["senum"]), st.just(["arr"]), st.just(["struct"])]
    if max_w >= 9:
        opts += [st.tuples(st.just("u"), st.sampled_from([63, 64, 65, 72, 80])).map(list),
                 st.tuples(st.just("s"), st.sampled_from([64, 65, 72])).map(list)]
    return st.one_of(*opts)


def init_value(s, k):
    """A legal init value for shape spec ``s`` chosen by the integer ``k`` (as a raw pattern)."""
    w = shape_width(s)
    if s[0] in ("arr", "struct"):
        return k % (1 << w)
    if s[0] == "enum":
        return [0, 1, 2][k % 3]
    if s[0] == "senum":
        return [-2, 0, 3][k % 3]
    if w == 0:
        return 0
    raw = k % (1 << w)
    if s[0] == "s" and raw >= (1 << (w - 1)):
        return raw - (1 << w)
    return raw


def init_arg(s, k):
    v = init_value(s, k)
    if s[0] == "arr":
        return [(v >> (2 * i)) & 3 for i in range(3)]
    if s[0] == "struct":
        b = (v >> 2) & 7
        return {"a": v & 3, "b": b - 8 if b >= 4 else b}
    if s[0] == "enum":
        return E2(v)
    if s[0] == "senum":
        return ES(v)
    if s[0] == "flag":
        return F3(v)
    return v


ACTIONS = {"R": action.R, "W": action.W, "RW": action.RW, "RW1C": action.RW1C, "RW1S": action.RW1S,
           "ResRAW0": action.ResRAW0, "ResRAWL": action.ResRAWL, "ResR0WA": action.ResR0WA,
           "ResR0W0": action.ResR0W0}
ACTION_ACCESS = {"R": "r", "W": "w", "RW": "rw", "RW1C": "rw", "RW1S": "rw", "ResRAW0": "nc",
                 "ResRAWL": "nc", "ResR0WA": "nc", "ResR0W0": "nc", "MockR": "r", "MockW": "w",
                 "MockRW": "rw", "MockNC": "nc"}


class MockAction(csr.FieldAction):
    """Field action without logic; the testbench drives port.r_data and reads the rest."""
    def __init__(self, shape, access):
        super().__init__(shape, access)

    def elaborate(self, platform):
        return Module()


def make_field(leaf, subclass=False):
    """``subclass``: the action class is a trivial user subclass of the library's."""
    a = leaf["a"]
    shp = shape_of(leaf["s"])
    if a.startswith("Mock"):
        return csr.Field(MockAction, shp, access=ACTION_ACCESS[a])
    cls = sub_of(ACTIONS[a], subclass)
    if a in ("RW", "RW1C", "RW1S") and (leaf.get("init") is not None or leaf["s"][0] in ("arr", "struct")):
        # aggregate shapes have no usable default (the library's init=0 is not a valid initialiser for them)
        return csr.Field(cls, shp, init=init_arg(leaf["s"], leaf.get("init") or 0))
    return csr.Field(cls, shp)


def field_leaf(actions, enums=True):
    return st.fixed_dictionaries({"a": st.sampled_from(actions), "s": shape_strategy(enums),
                                  "init": st.one_of(st.none(), st.integers(0, 1023))})


def field_tree(actions, enums=True, max_leaves=8):
    leaf = field_leaf(actions, enums)
    keys = st.sampled_from(["a", "b", "c", "d", "e", "f", "zz", "_p"])

    def extend(children):
        return st.one_of(
            st.lists(st.tuples(keys, children).map(list), min_size=1, max_size=4,
                     unique_by=lambda kv: kv[0]).map(lambda kvs: {"d": kvs}),
            st.lists(children, min_size=1, max_size=4).map(lambda xs: {"l": xs}),
            # the same description several times (arrays written by multiplication, one list under two names)
            st.tuples(children, st.integers(2, 3)).map(lambda t: {"l": [t[0]] * t[1]}),
            st.tuples(children, st.integers(2, 3)).map(lambda t: {"d": [[k, t[0]] for k in ("rx", "tx", "aux")[:t[1]]]}),
        )
    return st.recursive(leaf, extend, max_leaves=max_leaves)


def tree_to_fields(t, share=False, subclass=False, memo=None):
    """The description as the Python objects a user would write. ``share``: equal sub-descriptions
    are one and the same dict / list / Field object wherever they occur (``[chan] * 3``,
    ``{"rx": chan, "tx": chan}``) instead of equal copies."""
    import json
    if share:
        memo = {} if memo is None else memo
        key = json.dumps(t, sort_keys=True)
        if key in memo:
            return memo[key]
    if "a" in t:
        out = make_field(t, subclass)
    elif "d" in t:
        out = {k: tree_to_fields(v, share, subclass, memo) for k, v in t["d"]}
    else:
        out = [tree_to_fields(v, share, subclass, memo) for v in t["l"]]
    if share:
        memo[key] = out
    return out


def tree_leaves(t, path=()):
    """Declaration-order walk of the *input description*: [(path, leaf)]."""
    if "a" in t:
        return [(path, t)]
    out = []
    if "d" in t:
        for k, v in t["d"]:
            out += tree_leaves(v, path + (k,))
    else:
        for i, v in enumerate(t["l"]):
            out += tree_leaves(v, path + (i,))
    return out


def tree_access_needed(t):
    r = any(ACTION_ACCESS[l["a"]] in ("r", "rw") for _, l in tree_leaves(t))
    w = any(ACTION_ACCESS[l["a"]] in ("w", "rw") for _, l in tree_leaves(t))
    return r, w


# ----------------------------------------------------------------------------- wishbone geometry

FEATURES = ["err", "rty", "stall", "lock", "cti", "bte"]


def wb_features():
    return st.lists(st.sampled_from(FEATURES), unique=True, max_size=6).map(sorted)


# how a caller may legally spell an `iter(Feature)` argument: any iterable of names or members
FEATURE_STYLES = ("list", "list", "enum", "mixed", "mixed", "tuple", "set", "frozenset", "gen", "iter", "map", "keys")
# what the caller does with his own container / with a container the object hands out, afterwards
FEATURE_TAMPER = (None, None, None, None, "caller_toggle_lock", "caller_clear", "caller_fill", "returned")


def spell_features(feat, style):
    """The feature names ``feat`` as the Python object a caller would pass. Old specs use False
    (names), True (members) and "mixed"."""
    from amaranth_soc.wishbone import Feature
    feat = list(feat)
    if style in (False, None, "list"):
        return list(feat)
    if style in (True, "enum"):
        return [Feature(x) for x in feat]
    mixed = [Feature(x) if k % 2 == 0 else x for k, x in enumerate(feat)]
    if style == "mixed":
        return mixed
    if style == "tuple":
        return tuple(mixed)
    if style == "set":
        return set(feat)
    if style == "frozenset":
        return frozenset(Feature(x) for x in feat)
    if style == "gen":
        return (x for x in mixed)
    if style == "iter":
        return iter(feat)
    if style == "map":
        return map(Feature, feat)
    if style == "keys":
        return {x: None for x in feat}.keys()
    raise ValueError(style)


def tamper_features(passed, obj, how):
    """After construction: the caller reuses his own container (``passed``) for something else, or
    updates in place whatever ``obj.features`` hands out (a no-op rebinding for an immutable value).
    Neither may change the constructed object."""
    from amaranth_soc.wishbone import Feature
    if how is None:
        return
    if how == "returned":
        for target in ([obj] + ([obj.signature] if hasattr(obj, "signature") else [])):
            got = target.features
            for m, arg in (("add", Feature.LOCK), ("add", Feature.STALL), ("discard", Feature.ERR), ("discard", Feature.CTI)):
                if hasattr(got, m):
                    getattr(got, m)(arg)
            try:
                got |= {Feature.BTE}
            except TypeError:
                pass
        return
    if isinstance(passed, list):
        if how == "caller_toggle_lock":
            if any(Feature(x) == Feature.LOCK for x in passed):
                passed[:] = [x for x in passed if Feature(x) != Feature.LOCK]
            else:
                passed.append("lock")
        elif how == "caller_clear":
            del passed[:]
        else:
            passed[:] = list(Feature)
    elif isinstance(passed, set):
        if how == "caller_toggle_lock":
            passed.symmetric_difference_update({"lock"})
        elif how == "caller_clear":
            passed.clear()
        else:
            passed.update(x.value for x in Feature)


@st.composite
def wb_geometry(draw, max_aw=7, min_aw=0):
    dw = draw(st.sampled_from([8, 16, 32, 32, 64]))
    g = draw(st.sampled_from([x for x in (8, 16, 32, 64) if x <= dw]))
    return {"aw": draw(st.integers(min_aw, max_aw)), "dw": dw, "g": g, "feat": draw(wb_features())}


# ----------------------------------------------------------------------------- decoder configs
# Built bottom-up so that the windows fit by construction: subordinates are drawn first, their
# placement is planned with plain arithmetic, and the decoder is sized to hold them.

@st.composite
def csr_decoder_config(draw, max_subs=5, max_sub_aw=5, dws=CSR_DWS):
    dw = draw(st.sampled_from(dws))
    al = draw(st.sampled_from([0, 0, 1, 2, 3]))
    n = draw(st.integers(0, max_subs))
    if draw(st.integers(0, 11)) == 0:
        n = draw(st.integers(6, 13))          # occasionally many subordinates
    subs = [{"aw": draw(st.integers(1, max_sub_aw if n <= 5 else 2)), "named": draw(st.booleans()),
             "mode": draw(st.sampled_from(["imp", "imp", "align", "slot"])),
             "gap": draw(st.integers(0, 2)), "k": draw(st.integers(0, 4)),
             "pk": draw(st.integers(0, 9))} for _ in range(n)]
    return {"dw": dw, "al": al, "subs": subs, "extra_aw": draw(st.integers(0, 1)),
            "squeeze": draw(st.integers(0, 11)) == 0, "shuffle": draw(st.integers(0, 2)) == 0,
            "early_fail": draw(st.lists(st.integers(0, 4), max_size=2)) if draw(st.integers(0, 3)) == 0 else [],
            "ghosts": draw(st.sampled_from([0, 0, 0, 1, 2])),
            # the decoder is elaborated once after this many add() calls (None: only when complete)
            "mid_elab": draw(st.sampled_from([None, None, None, 0, 1, 2])),
            # windows start at a high base address (decoders with more than 32 address bits)
            "base": draw(st.sampled_from([0] * 14 + [1 << 33, (1 << 36) + (1 << 20)])),
            # accepted subordinates that are add()ed a second time afterwards (refused: already added)
            "readd": draw(st.lists(st.integers(0, 4), max_size=2)) if draw(st.integers(0, 4)) == 0 else [],
            "opts": draw(decoder_opts())}


DECODER_OPTS = ("early_q", "alias_decoy", "replace_map", "flip_temp", "subclass", "drop_iface", "alias_window")


def decoder_opts():
    """Python-level circumstances of a decoder's construction that must not matter:
    early_q     - the decoder's memory map is queried (decode_address, all_resources, window_patterns)
                  before each add()
    alias_decoy - afterwards a second decoder receives *other* interface objects that carry the same
                  memory-map objects (two ports onto the same peripherals)
    replace_map - dec.bus.memory_map is re-assigned (public setter) to a fresh map of the same geometry
                  before the first add()
    flip_temp   - add() receives wiring.flipped(iface) temporaries that nobody else references
    subclass    - the decoder is an instance of a trivial subclass
    alias_window- (wishbone) the first subordinate is reachable through a second window: its interface gets
                  another MemoryMap of the same geometry and is add()ed once more at a free address
    drop_iface  - after add() the caller keeps only the signals of a subordinate interface, not the
                  Interface object itself (the decoder has to keep alive what it was given)"""
    return st.fixed_dictionaries({k: st.sampled_from([False] * 5 + [True]) for k in DECODER_OPTS})


_SUBCLASSES = {}


def sub_of(cls, flag=True):
    """A trivial user subclass of a library class (``class MyDecoder(csr.Decoder): pass``)."""
    if not flag:
        return cls
    if cls not in _SUBCLASSES:
        _SUBCLASSES[cls] = type("My" + cls.__name__, (cls,), {})
    return _SUBCLASSES[cls]


def _early_q(dec, cfg, ps, pe):
    if not cfg.get("opts", {}).get("early_q"):
        return
    mm = dec.bus.memory_map
    top = 1 << mm.addr_width
    for a in (ps, ps + 1, pe - 1, pe, 0, top - 1):
        if 0 <= a < top:
            mm.decode_address(a)
    for _ in mm.all_resources():
        pass
    list(mm.window_patterns()); list(mm.windows())


def _replace_map(dec, cfg):
    if cfg.get("opts", {}).get("replace_map"):
        old = dec.bus.memory_map
        dec.bus.memory_map = MemoryMap(addr_width=old.addr_width, data_width=old.data_width, alignment=old.alignment)


class IfaceView:
    """What is left of a subordinate interface when the caller dropped the object and kept its
    signals and parameters."""
    def __init__(self, iface):
        self.__dict__.update({k: v for k, v in vars(iface).items() if not k.startswith("_")})
        for k in ("addr_width", "data_width", "granularity", "features", "memory_map", "signature"):
            if hasattr(iface, k):
                setattr(self, k, getattr(iface, k))


def _drop_ifaces(cfg, ifaces, external):
    """With 'drop_iface' the returned list holds views; the Interface objects themselves become garbage."""
    if not cfg.get("opts", {}).get("drop_iface") or external:
        return ifaces
    import gc
    views = [IfaceView(f) for f in ifaces]
    del ifaces[:]
    gc.collect()
    return views


def _add_arg(cfg, iface):
    return wiring.flipped(iface) if cfg.get("opts", {}).get("flip_temp") else iface


def _alias_decoy(dec, cfg, ifaces, make_decoder, make_iface, add_kw):
    """A second decoder over other interface objects that carry the *same* memory maps."""
    if not cfg.get("opts", {}).get("alias_decoy"):
        return
    decoy = make_decoder()
    dec.decoy = [decoy]
    for i, f in enumerate(ifaces):
        twin = make_iface(i, f)
        twin.memory_map = f.memory_map
        dec.decoy.append(twin)
        try:
            decoy.add(twin, **add_kw(i))
        except ValueError:
            pass


def plan_windows(al, subs_maw, subs, shuffle=False, base=0):
    """Allocator arithmetic for ratio-1 windows. Returns (end, [(start, end_reserved)]) indexed like
    ``subs``. With ``shuffle`` the address order follows the per-window sort key 'pk' instead of the
    add() order (all windows are then added at explicit addresses)."""
    order = list(range(len(subs)))
    if shuffle:
        order.sort(key=lambda i: (subs[i].get("pk", 0), i))
    cursor, out = base, [None] * len(subs)
    for i in order:
        maw, s = subs_maw[i], subs[i]
        eff = max(al, maw)
        if s["mode"] == "align" and not shuffle:
            cursor = align_up(cursor, max(al, s["k"]))
        start = align_up(cursor, eff)
        if s["mode"] == "slot" or (base and cursor == base):
            start += s["gap"] << eff
        end = start + (1 << eff)
        out[i] = (start, end)
        cursor = end
    return cursor, out


def build_csr_decoder(cfg, ifaces=None, prefix="w"):
    try:
        return _build_csr_decoder(cfg, ifaces, prefix)
    except ValueError as e:
        # add() refused after an intermediate elaboration (a decoder that freezes on elaboration): judged by
        # C19, not by the behavioural checks - build again without the intermediate elaboration
        if cfg.get("mid_elab") is not None and "frozen" in str(e).lower():
            return _build_csr_decoder(dict(cfg, mid_elab=None), None if ifaces is None else ifaces, prefix)
        raise


def _build_csr_decoder(cfg, ifaces=None, prefix="w"):
    """-> (decoder, [sub interfaces], plan [(start, reserved_end)]). May raise ValueError when
    cfg['squeeze'] made the decoder too small (a deliberate refusal). ``ifaces``: pre-built
    subordinate interfaces (their address widths are used instead of cfg['subs'][i]['aw'])."""
    maws = [s["aw"] for s in cfg["subs"]] if ifaces is None else [i.addr_width for i in ifaces]
    shuffle = bool(cfg.get("shuffle"))
    base = cfg.get("base", 0)
    end, plan = plan_windows(cfg["al"], maws, cfg["subs"], shuffle, base)
    aw = max(1, ceil_log2(max(end, 1))) + cfg["extra_aw"]
    if cfg["squeeze"] and aw > 1:
        aw -= 1
    dec = sub_of(csr.Decoder, cfg.get("opts", {}).get("subclass"))(addr_width=aw, data_width=cfg["dw"], alignment=cfg["al"])
    dec.verif_ctor = {"addr_width": aw, "data_width": cfg["dw"]}
    _replace_map(dec, cfg)
    given, ifaces = ifaces, []
    given_external = given is not None
    iface = None
    if given is None:
        given = []
        for i, s in enumerate(cfg["subs"]):
            iface = csr.Interface(addr_width=s["aw"], data_width=cfg["dw"], path=(f"sub{i}",))
            iface.memory_map = MemoryMap(addr_width=s["aw"], data_width=cfg["dw"])
            given.append(iface)
    # add() calls that are refused (address out of bounds) before the real ones: a refusal must leave nothing behind
    dec.ghosts = []
    for g in range(cfg.get("ghosts", 0)):
        ghost = csr.Interface(addr_width=1, data_width=cfg["dw"], path=(f"ghost{g}",))
        ghost.memory_map = MemoryMap(addr_width=1, data_width=cfg["dw"])
        try:
            dec.add(ghost, addr=1 << aw)
        except ValueError:
            dec.ghosts.append(ghost)
    for n_, j in enumerate(cfg.get("early_fail", [])):
        if given:
            f = given[j % len(given)]
            if (j + n_) % 2:
                # the refused attempt goes through *another* interface object onto the same memory map
                g_ = csr.Interface(addr_width=f.addr_width, data_width=f.data_width, path=(f"refused{n_}",))
                g_.memory_map = f.memory_map
                dec.ghosts.append(g_)
                f = g_
            try:
                dec.add(f, addr=1 << aw)
            except ValueError:
                pass
    for i, (s, (ps, pe)) in enumerate(zip(cfg["subs"], plan)):
        iface = given[i]
        kw = {}
        if s["named"]:
            kw["name"] = (f"{prefix}{i}",)
        if s["mode"] == "align" and not shuffle:
            dec.align_to(s["k"])
        if s["mode"] == "slot" or shuffle or (base and i == 0):
            kw["addr"] = ps
        _early_q(dec, cfg, ps, pe)
        got = dec.add(_add_arg(cfg, iface), **kw)
        ifaces.append(iface)
        _mid_elab(dec, cfg, i)
    _readd(dec, cfg, ifaces, {})
    _alias_decoy(dec, cfg, ifaces,
                 lambda: csr.Decoder(addr_width=aw, data_width=cfg["dw"], alignment=cfg["al"]),
                 lambda i, f: csr.Interface(addr_width=f.addr_width, data_width=f.data_width, path=(f"alias{i}",)),
                 lambda i: {"addr": plan[i][0]})
    external = given_external
    del given, iface
    return dec, _drop_ifaces(cfg, ifaces, external), plan


def _mid_elab(dec, cfg, i):
    if cfg.get("mid_elab") is not None and cfg["mid_elab"] == i:
        from amaranth.hdl import Fragment
        Fragment.get(dec, None)
        dec.mid_elaborated = True


def _readd(dec, cfg, ifaces, kw):
    for j in cfg.get("readd", []):
        if ifaces:
            f = ifaces[j % len(ifaces)]
            try:
                if "sparse" in kw:
                    dec.add(f, sparse=cfg["subs"][j % len(ifaces)].get("sparse", False))
                else:
                    dec.add(f)
            except ValueError:
                dec.readd_refused = True


@st.composite
def wb_decoder_config(draw, max_subs=5, max_sub_aw=4):
    dw = draw(st.sampled_from([8, 16, 32, 32, 64]))
    g = draw(st.sampled_from([x for x in (8, 16, 32, 64) if x <= dw]))
    feat = draw(wb_features())
    al = draw(st.sampled_from([0, 0, 1, 2]))
    gbits = (dw // g).bit_length() - 1
    n = draw(st.integers(0, max_subs))
    if draw(st.integers(0, 11)) == 0:
        n = draw(st.integers(6, 11))          # occasionally many subordinates
        max_sub_aw = 1
    subs = []
    for _ in range(n):
        sparse = draw(st.sampled_from([False, False, True]))
        sfeat = draw(wb_features())
        if draw(st.integers(0, 9)) > 0:
            sfeat = [f for f in sfeat if f not in ("err", "rty", "stall") or f in feat]
        if not sparse:
            sub = {"aw": draw(st.integers(0, max_sub_aw)), "dw": dw, "g": g}
        else:
            sdw = draw(st.sampled_from([x for x in (8, 16, 32, 64) if x <= g]))
            sub = {"aw": draw(st.integers(gbits, gbits + max_sub_aw)), "dw": sdw, "g": sdw}
        sub.update(feat=sfeat, sparse=sparse, named=draw(st.booleans()),
                   mode=draw(st.sampled_from(["imp", "imp", "align", "slot"])),
                   gap=draw(st.integers(0, 2)), k=draw(st.integers(0, 4)), pk=draw(st.integers(0, 9)))
        subs.append(sub)
    return {"dw": dw, "g": g, "feat": feat, "al": al, "subs": subs,
            "extra_aw": draw(st.integers(0, 1)), "squeeze": draw(st.integers(0, 11)) == 0,
            "zero_aw": draw(st.integers(0, 3)) == 0, "shuffle": draw(st.integers(0, 2)) == 0,
            "early_fail": draw(st.lists(st.integers(0, 4), max_size=2)) if draw(st.integers(0, 3)) == 0 else [],
            "ghosts": draw(st.sampled_from([0, 0, 0, 1, 2])),
            "mid_elab": draw(st.sampled_from([None, None, None, 0, 1, 2])),
            "base": draw(st.sampled_from([0] * 14 + [1 << 33, (1 << 36) + (1 << 20)])),
            "readd": draw(st.lists(st.integers(0, 4), max_size=2)) if draw(st.integers(0, 4)) == 0 else [],
            "opts": draw(decoder_opts()), "feat_style": draw(st.sampled_from(FEATURE_STYLES)),
            "feat_tamper": draw(st.sampled_from(FEATURE_TAMPER))}


def wb_sub_map_aw(s):
    return max(1, s["aw"] + ((s["dw"] // s["g"]).bit_length() - 1))


def build_wb_decoder(cfg, ifaces=None, prefix="w"):
    try:
        return _build_wb_decoder(cfg, ifaces, prefix)
    except ValueError as e:
        if cfg.get("mid_elab") is not None and "frozen" in str(e).lower():
            return _build_wb_decoder(dict(cfg, mid_elab=None), ifaces, prefix)
        raise


def _build_wb_decoder(cfg, ifaces=None, prefix="w"):
    """-> (decoder, [sub interfaces], plan in decoder-map (granule) addresses). ``ifaces``: pre-built
    subordinate interfaces with memory maps (dense, same data width and granularity)."""
    gbits = (cfg["dw"] // cfg["g"]).bit_length() - 1
    if ifaces is None:
        maws = [wb_sub_map_aw(s) for s in cfg["subs"]]
    else:
        maws = [f.memory_map.addr_width for f in ifaces]
    shuffle = bool(cfg.get("shuffle"))
    base = cfg.get("base", 0)
    end, plan = plan_windows(cfg["al"], maws, cfg["subs"], shuffle, base)
    needed = max(ceil_log2(max(end, 1)), gbits)
    aw = max(0, needed - gbits) + cfg["extra_aw"]
    if cfg["squeeze"] and aw > 0:
        aw -= 1
    # a decoder without address bits still has a 1-bit memory map: one 2-granule window fits
    if cfg.get("zero_aw") and gbits == 0 and needed <= 1:
        aw = 0
    passed = spell_features(cfg["feat"], cfg.get("feat_style", "list"))
    dec = sub_of(wishbone.Decoder, cfg.get("opts", {}).get("subclass"))(
        addr_width=aw, data_width=cfg["dw"], granularity=cfg["g"], features=passed, alignment=cfg["al"])
    tamper_features(passed, dec.bus, cfg.get("feat_tamper"))
    dec.verif_ctor = {"addr_width": aw, "data_width": cfg["dw"], "granularity": cfg["g"], "features": cfg["feat"]}
    _replace_map(dec, cfg)
    given, ifaces = ifaces, []
    given_external = given is not None
    iface = None
    if given is None:
        given = []
        for i, s in enumerate(cfg["subs"]):
            iface = wishbone.Interface(addr_width=s["aw"], data_width=s["dw"], granularity=s["g"],
                                       features=s["feat"], path=(f"sub{i}",))
            iface.memory_map = MemoryMap(addr_width=wb_sub_map_aw(s), data_width=s["g"])
            given.append(iface)
    # refused add() calls (address out of bounds) before the real ones
    dec.ghosts = []
    oob = 1 << dec.bus.memory_map.addr_width
    for g in range(cfg.get("ghosts", 0)):
        ghost = wishbone.Interface(addr_width=0, data_width=cfg["dw"], granularity=cfg["g"],
                                   features=[f for f in ("err", "rty", "stall") if f in cfg["feat"]], path=(f"ghost{g}",))
        ghost.memory_map = MemoryMap(addr_width=max(1, gbits), data_width=cfg["g"])
        try:
            dec.add(ghost, addr=oob)
        except ValueError:
            dec.ghosts.append(ghost)
    for n_, j in enumerate(cfg.get("early_fail", [])):
        if given:
            f = given[j % len(given)]
            if (j + n_) % 2:
                # the refused attempt goes through *another* interface object onto the same memory map
                g_ = wishbone.Interface(addr_width=f.addr_width, data_width=f.data_width, granularity=f.granularity,
                                        features=f.features, path=(f"refused{n_}",))
                g_.memory_map = f.memory_map
                dec.ghosts.append(g_)
                f = g_
            try:
                dec.add(f, addr=oob, sparse=cfg["subs"][j % len(given)].get("sparse", False))
            except ValueError:
                pass
    for i, (s, (ps, pe)) in enumerate(zip(cfg["subs"], plan)):
        iface = given[i]
        kw = {"sparse": s.get("sparse", False)}
        if s["named"]:
            kw["name"] = (f"{prefix}{i}",)
        if s["mode"] == "align" and not shuffle:
            dec.align_to(s["k"])
        if s["mode"] == "slot" or shuffle or (base and i == 0):
            kw["addr"] = ps
        _early_q(dec, cfg, ps, pe)
        dec.add(_add_arg(cfg, iface), **kw)
        ifaces.append(iface)
        _mid_elab(dec, cfg, i)
    dec.aliases = {}
    if cfg.get("opts", {}).get("alias_window") and ifaces and not given_external:
        f0 = ifaces[0]
        eff = max(cfg["al"], maws[0])
        a0 = align_up(end, eff)
        if a0 + (1 << eff) <= (1 << dec.bus.memory_map.addr_width):
            first_map = f0.memory_map
            f0.memory_map = MemoryMap(addr_width=first_map.addr_width, data_width=first_map.data_width)
            dec.add(f0, addr=a0, sparse=cfg["subs"][0].get("sparse", False))
            dec.aliases = {id(first_map): 0}
            dec.alias_keep = first_map
    _readd(dec, cfg, ifaces, {"sparse": None})
    _alias_decoy(dec, cfg, ifaces,
                 lambda: wishbone.Decoder(addr_width=aw, data_width=cfg["dw"], granularity=cfg["g"],
                                          features=cfg["feat"], alignment=cfg["al"]),
                 lambda i, f: wishbone.Interface(addr_width=f.addr_width, data_width=f.data_width, granularity=f.granularity,
                                                 features=f.features, path=(f"alias{i}",)),
                 lambda i: {"addr": plan[i][0], "sparse": cfg["subs"][i].get("sparse", False)})
    external = given_external
    del given, iface
    return dec, _drop_ifaces(cfg, ifaces, external), plan
