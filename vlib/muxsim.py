"""Simulation of a real csr.Multiplexer over mock registers, in lock step with the MuxModel."""
# amaranth: UnusedElaboratable=no
from amaranth import Cat, Value
from amaranth.utils import ceil_log2

from amaranth_soc import csr

from vlib import gens, sim
from vlib.csrmodel import MuxModel, Reg, hval, flatten
from vlib.common import Violation, deliberate_refusal


def layout_labels(lay, plan, stats):
    dw = lay["dw"]
    for r, (s, e) in zip(lay["regs"], plan):
        size = e - s
        nat = 1 << ceil_log2(size)
        stats.label("unaligned", s % nat != 0)
        stats.label("padded", size > max(1, -(-r["w"] // dw)))
        stats.label("multi_chunk", r["w"] > dw)
        stats.label("zero_width", r["w"] == 0)
        stats.label("partial_last_chunk", r["w"] % dw != 0 and r["w"] > 0)
        stats.label("read_only", r["acc"] == "r")
        stats.label("write_only", r["acc"] == "w")
    stats.label("map_alignment", lay["al"] > 0)
    stats.label("aliased_family", lay.get("family") == "aliased")
    stats.label("top_register_starts_at_power_of_two", lay.get("family") == "aliased" and plan[-1][0] & (plan[-1][0] - 1) == 0)
    stats.label("high_base_address", lay.get("base", 0) >= 256)
    stats.label("late_registers", lay.get("late", 0) > 0 and len(lay["regs"]) > 1)
    stats.label("very_long_register", any(e - s > 256 for s, e in plan))
    stats.label("beyond_13_address_bits", any(e > 8192 for s, e in plan))
    # aliasing under the documented shadow hash (initial shadow size = largest register span)
    for acc in "rw":
        rs = [(s, e) for r, (s, e) in zip(lay["regs"], plan) if acc in r["acc"]]
        if len(rs) < 2:
            continue
        S = max(1 << ceil_log2(e - s) for s, e in rs)
        seen = {}
        for k, (s, e) in enumerate(rs):
            rm = (1 << ceil_log2(e - s)) - 1
            for a in range(s, e):
                off = s & (S - 1) & ~rm | a & rm
                if off in seen and seen[off] != k:
                    stats.label("shared_chunk")
                seen.setdefault(off, k)


def run_case(lay, stim, ov, stats, prop, check_reads, check_writes):
    """Build the multiplexer for ``lay`` with sharing limit ``ov``, drive ``stim`` and compare with
    the model. Returns 'refused' if the configuration is deliberately refused, else facts."""
    mux, built = gens.build_csr_mux(lay, ov)
    mm = mux.bus.memory_map
    aw, plan = gens.plan_csr_layout(lay)
    if [(s, e) for _, s, e in built] != plan:
        raise Violation(f"{prop}/layout-plan", f"memory map placed registers at {[(s, e) for _, s, e in built]}, "
                        f"arithmetic says {plan}")
    dw = lay["dw"]
    regs = [Reg(s, e, r["w"], r["acc"]) for r, (s, e) in zip(lay["regs"], plan)]
    top = sim.wrap(mux)
    cycles, facts = flatten(stim, regs, aw, dw)
    model = MuxModel(dw, regs)
    conforming = stim["kind"] == "conf"
    seed = stim["dseed"]
    elems = [b[0].element for b in built]
    r_stbs = Cat(*[e.r_stb for e, r in zip(elems, regs) if r.readable])
    w_stbs = Cat(*[e.w_stb for e, r in zip(elems, regs) if r.writable])
    ridx = [i for i, r in enumerate(regs) if r.readable]
    widx = [i for i, r in enumerate(regs) if r.writable]
    bus = mux.bus
    prev_read_of_readable = [False]

    async def tb(ctx):
        for t, (addr, r_stb, w_stb, w_data, txn, note) in enumerate(cycles):
            ctx.set(bus.addr, addr)
            ctx.set(bus.r_stb, r_stb)
            ctx.set(bus.w_stb, w_stb)
            ctx.set(bus.w_data, w_data)
            values = [0] * len(regs)
            for i in ridx:
                values[i] = hval(seed, f"v{i}", t, regs[i].width)
                ctx.set(elems[i].r_data, values[i])
            exp = model.step(addr, r_stb, w_stb, w_data, values, txn)
            got_r_data = ctx.get(bus.r_data)
            got_rs = ctx.get(r_stbs) if ridx else 0
            got_ws = ctx.get(w_stbs) if widx else 0
            where = f"cycle {t} ({note}) addr={addr:#x} r_stb={r_stb} w_stb={w_stb}"
            if check_reads:
                for k, i in enumerate(ridx):
                    g = bool((got_rs >> k) & 1)
                    if g != exp.r_stb[i]:
                        raise Violation(f"{prop}/r_stb", f"{where}: register {i} [{regs[i].start},{regs[i].end}) "
                                        f"r_stb={g}, expected {exp.r_stb[i]}")
                if conforming:
                    if exp.r_data_known and got_r_data != exp.r_data:
                        raise Violation(f"{prop}/r_data", f"{where}: bus.r_data={got_r_data:#x}, expected "
                                        f"{exp.r_data:#x}")
                else:
                    if not prev_read_of_readable[0] and got_r_data != 0:
                        raise Violation(f"{prop}/r_data-nonzero-idle", f"{where}: bus.r_data={got_r_data:#x} in a "
                                        f"cycle that does not follow a read of a readable register")
                i = model.find(addr)
                prev_read_of_readable[0] = bool(r_stb and i is not None and regs[i].readable)
            if check_writes:
                for k, i in enumerate(widx):
                    g = bool((got_ws >> k) & 1)
                    if g != exp.w_stb[i]:
                        raise Violation(f"{prop}/w_stb", f"{where}: register {i} [{regs[i].start},{regs[i].end}) "
                                        f"w_stb={g}, expected {exp.w_stb[i]}")
                    if g and conforming and regs[i].width:
                        wd = ctx.get(Value.cast(elems[i].w_data))
                        if (wd ^ exp.w_data[i]) & exp.w_mask[i]:
                            raise Violation(f"{prop}/w_data", f"{where}: register {i} w_data={wd:#x}, expected "
                                            f"{exp.w_data[i]:#x} on mask {exp.w_mask[i]:#x}")
            await ctx.tick()

    try:
        sim.simulate(top, tb)
    except ValueError as e:
        if deliberate_refusal(e):
            # the refusal itself says when it may happen: "registers must be naturally aligned or the
            # overlap constraint must be relaxed" - a layout whose register ranges are all
            # naturally aligned is balanceable for every sharing limit
            if all(s_ % (1 if e_ - s_ <= 1 else 1 << (e_ - s_ - 1).bit_length()) == 0 for s_, e_ in plan):
                raise Violation(f"{prop}/legal-layout-refused", f"every register range of {plan} is naturally aligned, yet "
                                f"elaboration with shadow_overlaps={ov} was refused: {str(e)[:160]}")
            return "refused", facts
        raise
    stats.add("simulated_cycles", len(cycles))
    return "ok", facts
