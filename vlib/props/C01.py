"""C01 — the memory map tells the truth about the hardware, end to end."""
# amaranth: UnusedElaboratable=no
from hypothesis import strategies as st

from amaranth import Cat, Value, Const
from amaranth.lib.memory import Memory

from amaranth_soc import csr, wishbone, event, gpio
from amaranth_soc.csr import action
from amaranth_soc.csr.wishbone import WishboneCSRBridge
from amaranth_soc.csr.event import EventMonitor
from amaranth_soc.wishbone.sram import WishboneSRAM
from amaranth_soc.memory import MemoryMap

from vlib import gens, sim
from vlib.csrmodel import hval
from vlib.common import Violation

RULE = ("Generated hierarchies, built bottom-up so that parents fit: root = wishbone.Decoder (3/4) over "
        "WishboneSRAMs, WishboneCSRBridges (CSR data width = granularity) and nested Wishbone decoders, "
        "or a csr.Decoder (1/4); CSR subtrees of nested csr.Decoders, csr.Bridge over csr.Builder maps "
        "of real registers (Cluster/Index scopes), csr.Multiplexer over mock registers (unaligned, "
        "padded), csr.EventMonitor and gpio.Peripheral; windows shuffled, named/anonymous, implicit / "
        "align_to / explicit slot. Oracle = the root memory map (decode_address / find_resource). "
        "Procedure: for EVERY root address (roots larger than the tier's full-sweep limit: every address holding part of a resource, its neighbours and a sample), ascending: a read pass and a write pass with all select "
        "bits, then again with a random select mask per word and back-to-back transfers (no idle cycle after the acknowledge); a probe samples every leaf register's "
        "r_stb/w_stb and every SRAM's cyc&stb/ack on every cycle. Checked: strobes exactly at first / "
        "last chunk of the decoded leaf and nowhere else, lane data = slice (a - start) of the value "
        "the leaf presented at its strobe, w_data = lanes written, SRAM word/lane exactness, unassigned "
        "addresses: no strobe, no SRAM cycle, zero data; unanswered Wishbone words: never acknowledged. "
        "Non-trivial = >= 2 levels, >= 3 leaves of >= 2 kinds, a multi-chunk register and an unassigned "
        "address. Distinct = canonical JSON.")
BUDGET = {"quick": (16, 60), "thorough": (16, 400)}
ESSENTIAL = ["root:wb", "root:csr", "leaf:mock", "leaf:real", "leaf:sram", "leaf:evmon", "leaf:gpio",
             "unassigned_address", "unanswered_word", "hole_inside_bridge", "multi_chunk_leaf", "depth>=3",
             "anonymous_window", "named_window", "shuffled_windows", "alignment_padding", "back_to_back_transfers"]
ASSUMPTIONS = [
    "windows are dense between buses of equal granularity, at implicit addresses or explicit multiples of the window size (the stated domain)",
    "read data of a non-first chunk is compared only while the register's snapshot is known to be intact (no other first-chunk read since)",
    "w_data bits of chunks not written since the last write to a different register are don't-care",
    "'never acknowledged' is checked as: no ack within ratio+4 cycles of a held request (the longest legitimate latency is ratio+1)",
]
MAX_ROOT_ADDRS = {"quick": 1 << 8, "thorough": 1 << 11}


# ---------------------------------------------------------------------------------- strategies

def _win(draw):
    return {"named": draw(st.booleans()), "mode": draw(st.sampled_from(["imp", "imp", "align", "slot"])),
            "gap": draw(st.integers(0, 1)), "k": draw(st.integers(0, 3)), "pk": draw(st.integers(0, 9)), "aw": 1}


@st.composite
def _csr_leaf(draw, dw):
    kind = draw(st.sampled_from(["mux", "mux", "regbridge", "regbridge", "evmon", "gpio"]))
    if kind == "gpio" and dw % 8:
        kind = "mux"      # gpio.Peripheral builds its registers with granularity 8
    if kind == "mux":
        return {"t": "mux", "lay": draw(gens.csr_layout(max_regs=draw(st.sampled_from([3, 3, 5])), dws=(dw,), overlaps=True, high=True))}
    if kind == "regbridge":
        regs = []
        for _ in range(draw(st.integers(1, 4))):
            regs.append({"w": draw(st.sampled_from([1, dw - 1, dw, dw + 1, 2 * dw, 3 * dw, 2 * dw + 3])),
                         "acc": draw(st.sampled_from(["r", "w", "rw"])),
                         "scope": draw(st.lists(st.sampled_from(["c", "d", 0, 1]), max_size=2))})
        return {"t": "regbridge", "regs": regs}
    if kind == "evmon":
        return {"t": "evmon", "n": draw(st.integers(0, 2 * dw + 1)), "al": draw(st.integers(0, 2))}
    return {"t": "gpio", "pins": draw(st.integers(1, min(dw + 2, 10))), "stages": draw(st.integers(0, 2))}


@st.composite
def _csr_node(draw, dw, depth):
    if depth == 0 or draw(st.integers(0, 3)) == 0:
        return draw(_csr_leaf(dw))
    n = draw(st.integers(1, 3))
    subs = []
    for _ in range(n):
        child = draw(_csr_node(dw, depth - 1))
        w = _win(draw)
        if child["t"] in ("evmon", "gpio"):
            w["named"] = True     # their register names are fixed ('enable', 'Mode', ...): anonymous twins would collide
        subs.append(dict(w, node=child))
    return {"t": "csrdec", "dw": dw, "al": draw(st.sampled_from([0, 0, 1, 2])), "subs": subs,
            "extra_aw": draw(st.integers(0, 1)), "squeeze": False, "shuffle": draw(st.integers(0, 2)) == 0,
            "mid_elab": draw(st.sampled_from([None, None, None, 0, 1])),
            "readd": [draw(st.integers(0, 2))] if draw(st.integers(0, 5)) == 0 else [],
            "opts": draw(gens.decoder_opts())}


@st.composite
def _wb_node(draw, dw, g, depth):
    n = draw(st.integers(1, 3))
    subs = []
    for _ in range(n):
        kind = draw(st.sampled_from(["sram", "bridge", "bridge", "wbdec"] if depth > 0 else ["sram", "bridge", "bridge"]))
        if kind == "sram":
            lo = (dw // g).bit_length() - 1
            node = {"t": "sram", "size_log2": draw(st.integers(max(lo, 1), max(lo, 1) + 3)), "writable": draw(st.booleans())}
        elif kind == "bridge":
            cn = draw(_csr_node(g, draw(st.integers(0, 2))))
            node = {"t": "wbbridge", "csr": cn, "named": draw(st.booleans()) or cn["t"] in ("evmon", "gpio")}
        else:
            node = draw(_wb_node(dw, g, depth - 1))
        w = _win(draw)
        if kind == "sram":
            w["named"] = True       # every SRAM calls its resource 'mem': two anonymous SRAM windows would collide
        subs.append(dict(w, node=node))
    return {"t": "wbdec", "dw": dw, "g": g, "feat": draw(gens.wb_features()), "al": draw(st.sampled_from([0, 0, 1, 2])),
            "subs": subs, "extra_aw": draw(st.integers(0, 1)), "squeeze": False, "zero_aw": False,
            "shuffle": draw(st.integers(0, 2)) == 0, "mid_elab": draw(st.sampled_from([None, None, None, 0, 1])),
            "readd": [draw(st.integers(0, 2))] if draw(st.integers(0, 5)) == 0 else [],
            "opts": draw(gens.decoder_opts()), "feat_style": draw(st.sampled_from(gens.FEATURE_STYLES))}


@st.composite
def _spec(draw, tier):
    if draw(st.integers(0, 3)) == 0:
        dw = draw(st.sampled_from([3, 8, 8, 16]))
        root = draw(_csr_node(dw, 2))
        if root["t"] != "csrdec":
            root = {"t": "csrdec", "dw": dw, "al": 0, "subs": [dict(_win(draw), node=root, named=True)], "extra_aw": 1,
                    "squeeze": False, "shuffle": False}
    else:
        dw = draw(st.sampled_from([8, 16, 32, 32]))
        g = draw(st.sampled_from([x for x in (8, 16, 32) if x <= dw]))
        root = draw(_wb_node(dw, g, 1))
    return {"root": root, "dseed": draw(st.integers(0, 1 << 30))}


def strategy(tier):
    return gens.with_pre(_spec(tier), prelude=False)    # trees contain SRAMs: memory contents survive a reset


# ---------------------------------------------------------------------------------- building

class Hier:
    def __init__(self):
        self.comps = []         # everything that has to be a submodule
        self.owner = {}         # id(memory map) -> (kind, component)
        self.mock = []          # (MockReg, lay_reg) driven by the testbench
        self.rfields = []       # real R-field actions driven by the testbench: (action, width)
        self.kinds = {}         # id(resource) -> kind label
        self.depth = 0
        self.labels = set()


def _pfx(path, c):
    return c + "x".join(str(p) for p in path) + "y"


def _build_csr(node, path, h, dw):
    """-> (csr bus interface, depth)"""
    t = node["t"]
    if t == "mux":
        mux, regs = gens.build_csr_mux(node["lay"], node["lay"].get("ov"), name_prefix=_pfx(path, "r"))
        if node["lay"].get("ov") is not None:
            h.labels.add("finite_sharing_limit")
        h.comps.append(mux)
        for (reg, s, e), r in zip(regs, node["lay"]["regs"]):
            h.mock.append((reg, r))
            h.kinds[id(reg)] = "mock"
        return mux.bus, 0
    if t == "regbridge":
        plan = []
        for k, r in enumerate(node["regs"]):
            act = {"r": action.R, "w": action.W, "rw": action.RW}[r["acc"]]
            reg = csr.Register(csr.Field(act, r["w"]), access=r["acc"])
            plan.append((reg, r))
        # smallest address width that holds the registers
        def fill(builder):
            for k, (reg, r) in enumerate(plan):
                def add():
                    builder.add(_pfx(path, "g") + str(k), reg)
                ctxs = []
                for sc in r["scope"]:
                    ctxs.append(builder.Cluster(sc) if isinstance(sc, str) else builder.Index(sc))
                from contextlib import ExitStack
                with ExitStack() as es:
                    for c in ctxs:
                        es.enter_context(c)
                    add()
        mm = None
        for aw in range(1, 12):
            b = csr.Builder(addr_width=aw, data_width=dw, granularity=dw)
            fill(b)
            try:
                mm = b.as_memory_map()
                break
            except ValueError:
                continue
        bridge = csr.Bridge(mm)
        h.comps.append(bridge)
        for reg, r in plan:
            h.kinds[id(reg)] = "real"
            if r["acc"] == "r":
                h.rfields.append((reg.f, r["w"]))
        return bridge.bus, 0
    if t == "evmon":
        emap = event.EventMap()
        for k in range(node["n"]):
            emap.add(event.Source(path=(_pfx(path, "s") + str(k),)))
        mon = EventMonitor(emap, data_width=dw, alignment=node["al"])
        h.comps.append(mon)
        for reg, _, _ in mon.bus.memory_map.resources():
            h.kinds[id(reg)] = "evmon"
        return mon.bus, 0
    if t == "gpio":
        dut = None
        for aw in range(1, 10):
            try:
                dut = gpio.Peripheral(pin_count=node["pins"], addr_width=aw, data_width=dw, input_stages=node["stages"])
                break
            except ValueError:
                continue
        h.comps.append(dut)
        for info in dut.bus.memory_map.all_resources():
            h.kinds[id(info.resource)] = "gpio"
        return dut.bus, 0
    # csr decoder
    subs, depth = [], 0
    for i, s in enumerate(node["subs"]):
        iface, d = _build_csr(s["node"], path + (i,), h, dw)
        subs.append(iface)
        depth = max(depth, d + 1)
    dec, _, _ = gens.build_csr_decoder(node, ifaces=subs, prefix=_pfx(path, "w"))
    h.comps.append(dec)
    _window_labels(node, dec.bus.memory_map, subs, h)
    return dec.bus, depth


def _window_labels(node, mm, subs, h):
    order = []
    for wmap, name, (s, e, ratio) in mm.windows():
        h.labels.add("named_window" if name is not None else "anonymous_window")
        if e - s > (1 << wmap.addr_width):
            h.labels.add("alignment_padding")
        order.append([i for i, f in enumerate(subs) if f.memory_map is wmap][0])
    if order != sorted(order):
        h.labels.add("shuffled_windows")


def _build_wb(node, path, h):
    """-> (wishbone interface, depth)"""
    dw, g = node["dw"], node["g"]
    ratio = dw // g
    subs, depth = [], 0
    for i, s in enumerate(node["subs"]):
        n = s["node"]
        if n["t"] == "sram":
            sram = WishboneSRAM(size=1 << n["size_log2"], data_width=dw, granularity=g, writable=n["writable"],
                                init=[hval(0, _pfx(path, "i"), k, dw) for k in range(((1 << n["size_log2"]) * g) // dw)])
            h.comps.append(sram)
            mem = list(sram.wb_bus.memory_map.resources())[0][0]
            h.kinds[id(mem)] = "sram"
            h.owner[id(sram.wb_bus.memory_map)] = ("sram", sram)
            subs.append(sram.wb_bus)
            depth = max(depth, 1)
        elif n["t"] == "wbbridge":
            cbus, d = _build_csr(n["csr"], path + (i,), h, g)
            need = ratio.bit_length() - 1
            if cbus.addr_width < need:
                wrap = csr.Decoder(addr_width=need, data_width=g)
                wrap.add(cbus)
                h.comps.append(wrap)
                cbus = wrap.bus
                d += 1
            br = WishboneCSRBridge(cbus, data_width=dw, name=(_pfx(path, "b") + str(i),) if n["named"] else None)
            h.comps.append(br)
            h.owner[id(br.wb_bus.memory_map)] = ("bridge", br)
            subs.append(br.wb_bus)
            depth = max(depth, d + 2)
        else:
            n = dict(n, feat=[f for f in n["feat"] if f not in ("err", "rty", "stall") or f in node["feat"]])
            bus, d = _build_wb(n, path + (i,), h)
            subs.append(bus)
            depth = max(depth, d + 1)
    dec, _, _ = gens.build_wb_decoder(node, ifaces=subs, prefix=_pfx(path, "v"))
    h.comps.append(dec)
    h.owner[id(dec.bus.memory_map)] = ("wbdec", dec)
    _window_labels(node, dec.bus.memory_map, subs, h)
    return dec.bus, depth


# ---------------------------------------------------------------------------------- the check

class Leaf:
    def __init__(self, info, kind):
        self.info = info
        self.kind = kind
        self.res = info.resource
        self.is_mem = isinstance(info.resource, Memory)
        if not self.is_mem:
            self.elem = info.resource.element
            self.readable = self.elem.access.readable()
            self.writable = self.elem.access.writable()
            self.width = self.elem.width
        self.snap = None
        self.wbuf = {}


def check(spec, stats):
    if sim.set_pre(spec):
        stats.label("pre_elaborated")
    import os
    tier_limit = MAX_ROOT_ADDRS.get(os.environ.get("VERIF_TIER_EFFECTIVE", "thorough"), 1 << 12)
    root = spec["root"]
    seed = spec["dseed"]
    h = Hier()
    is_wb = root["t"] == "wbdec"
    if is_wb:
        bus, depth = _build_wb(root, (), h)
        unit = root["g"]
    else:
        bus, depth = _build_csr(root, (), h, root["dw"])
        unit = root["dw"]
    stats.label("root:wb" if is_wb else "root:csr")
    for l in h.labels:
        stats.label(l)
    rmap = bus.memory_map
    naddr = 1 << rmap.addr_width
    sampled = naddr > tier_limit
    if naddr > (1 << 16):
        stats.label("skipped_too_large")
        return
    infos = list(rmap.all_resources())
    leaves = []
    for info in infos:
        kind = h.kinds.get(id(info.resource))
        if kind is None:
            raise Violation("C01/unknown-resource", f"all_resources() reports {info.path} which no built component owns")
        if info.width != unit:
            raise Violation("C01/resource-width", f"{info.path}: width {info.width}, bus unit {unit}")
        leaves.append(Leaf(info, kind))
        stats.label("leaf:" + kind)
        if not leaves[-1].is_mem and leaves[-1].width > unit:
            stats.label("multi_chunk_leaf")
    if len({id(l.res) for l in leaves}) != len(leaves) or len(h.kinds) != len(leaves):
        raise Violation("C01/resources-missing", f"{len(h.kinds)} leaf resources built, all_resources() reports {len(leaves)}")
    by_id = {id(l.res): l for l in leaves}
    # address -> (leaf, offset) through the root memory map (the oracle)
    amap = [None] * naddr
    fcache = {}
    for a in range(naddr):
        r = rmap.decode_address(a)
        if r is None:
            continue
        l = by_id.get(id(r))
        if l is None:
            raise Violation("C01/decode-unknown", f"decode_address({a:#x}) returned an object that all_resources() does not list")
        fi = fcache.get(id(r)) or fcache.setdefault(id(r), rmap.find_resource(r))
        if not (fi.start <= a < fi.end) or (fi.start, fi.end) != (l.info.start, l.info.end):
            raise Violation("C01/map-incoherent", f"decode_address({a:#x}) -> {fi.path} at [{fi.start},{fi.end})")
        amap[a] = (l, a - fi.start)
    if any(x is None for x in amap):
        stats.label("unassigned_address")
    stats.label(f"depth>={min(depth, 3)}")
    stats.add("root_addresses", naddr)
    stats.add("leaves", len(leaves))
    regs = [l for l in leaves if not l.is_mem]
    mems = [l for l in leaves if l.is_mem]
    srams = [c for k, c in h.owner.values() if k == "sram"]
    sram_of = {id(list(s.wb_bus.memory_map.resources())[0][0]): s for s in srams}
    images = {id(l.res): [hval(0, "x", 0, 0)] for l in mems}
    for l in mems:
        s = sram_of[id(l.res)]
        images[id(l.res)] = list(s.init) + [0] * (l.res.data.depth - len(list(s.init)))
    probe_expr = Cat(*[Cat(l.elem.r_stb if l.readable else Const(0, 1), l.elem.w_stb if l.writable else Const(0, 1)) for l in regs],
                     *[Cat(s.wb_bus.cyc & s.wb_bus.stb, s.wb_bus.ack) for s in srams])
    from amaranth import Signal
    probe = Signal(max(1, len(probe_expr)), name="verif_probe")

    def add_probe(m):
        m.d.comb += probe.eq(probe_expr)
    top = sim.wrap(*h.comps, extra=add_probe)
    nregs = len(regs)
    tick = [0]

    def drive_leaf_values(ctx):
        t = tick[0]
        for k, (reg, r) in enumerate(h.mock):
            if "r" in r["acc"] and r["w"]:
                ctx.set(reg.element.r_data, hval(seed, f"m{k}", t, r["w"]))
        for k, (act, w) in enumerate(h.rfields):
            ctx.set(act.r_data, hval(seed, f"f{k}", t, w))

    def sample(ctx, counts, where):
        """Sample the probe in the current cycle; record strobes and the data presented with them."""
        p = ctx.get(probe)
        for k, l in enumerate(regs):
            rs, ws = (p >> (2 * k)) & 1, (p >> (2 * k + 1)) & 1
            if rs:
                counts[("r", k)] = counts.get(("r", k), 0) + 1
                l.snap_new = ctx.get(Value.cast(l.elem.r_data)) if l.width else 0
            if ws:
                counts[("w", k)] = counts.get(("w", k), 0) + 1
                l.wdata_seen = ctx.get(Value.cast(l.elem.w_data)) if l.width else 0
        for k, s in enumerate(srams):
            cs, ak = (p >> (2 * nregs + 2 * k)) & 1, (p >> (2 * nregs + 2 * k + 1)) & 1
            if cs:
                counts[("c", k)] = counts.get(("c", k), 0) + 1
            if ak:
                counts[("a", k)] = counts.get(("a", k), 0) + 1

    def judge(counts, granules, is_write, lanes_w, where):
        """Strobe exactness for one access: ``granules`` = selected root addresses."""
        exp = {}
        for a in granules:
            x = amap[a]
            if x is None or x[0].is_mem:
                continue
            l, c = x
            k = regs.index(l)
            if not is_write and l.readable and c == 0:
                exp[("r", k)] = 1
            if is_write and l.writable and a == l.info.end - 1:
                exp[("w", k)] = 1
        got = {key: v for key, v in counts.items() if key[0] in ("r", "w")}
        if got != exp:
            def names(d):
                return {f"{'r_stb' if t == 'r' else 'w_stb'}@{'/'.join('.'.join(map(str, p)) for p in regs[k].info.path)}"
                        f"[{regs[k].info.start},{regs[k].info.end})": v for (t, k), v in d.items()}
            raise Violation("C01/leaf-strobes", f"{where}: leaf strobes {names(got)}, the memory map implies {names(exp)}")
        # snapshots / write buffers, in ascending address order (the order the hardware accesses them)
        exp_lanes = {}
        for a in granules:
            x = amap[a]
            if x is None or x[0].is_mem:
                exp_lanes[a] = expect_lane(a)
                continue
            l, c = x
            if not is_write:
                if l.readable and c == 0:
                    for o in regs:
                        o.snap = None       # a capture may clobber shadow chunks shared with other registers
                    l.snap = l.snap_new
                exp_lanes[a] = expect_lane(a)
            elif l.writable:
                for o in regs:
                    if o is not l:
                        o.wbuf = {}
                l.wbuf[c] = lanes_w[a]
                if a == l.info.end - 1 and l.width:
                    val = mask = 0
                    for cc, v in l.wbuf.items():
                        val |= v << (cc * unit)
                        mask |= ((1 << unit) - 1) << (cc * unit)
                    full = (1 << l.width) - 1
                    if (l.wdata_seen ^ val) & mask & full:
                        raise Violation("C01/leaf-w_data", f"{where}: {l.info.path} w_data={l.wdata_seen:#x}, lanes written "
                                        f"{val & full:#x} on mask {mask & full:#x}")
        return exp_lanes

    def expect_lane(a):
        """Expected read value of root address ``a`` (None = not comparable)."""
        x = amap[a]
        if x is None:
            return 0
        l, c = x
        if l.is_mem:
            row, lane = divmod(c, ratio_mem(l))
            return (images[id(l.res)][row] >> (lane * unit)) & ((1 << unit) - 1)
        if not l.readable:
            return 0
        if l.snap is None:
            return None
        return (l.snap >> (c * unit)) & ((1 << unit) - 1)

    def ratio_mem(l):
        return l.res.data.shape.width // unit

    def visit(n_units, per_unit):
        """All units (words / addresses) of the root, or - for roots beyond the tier's full-sweep limit -
        every unit that holds part of a resource, its neighbours, window boundaries and a sample."""
        if not sampled:
            return range(n_units)
        stats.label("sampled_sweep")
        pts = {0, n_units - 1}
        for l in leaves:
            for a in range(l.info.start, l.info.end):
                pts.add(a // per_unit)
            for a in (l.info.start - 1, l.info.end):
                if 0 <= a < naddr:
                    pts.add(a // per_unit)
        pts.update(hval(seed, "visit", k, 30) % n_units for k in range(64))
        return sorted(pts)

    if is_wb:
        R = root["dw"] // root["g"]
        gbits = R.bit_length() - 1
        wb = bus
        nwords = 1 << wb.addr_width
        dwid = root["dw"]
        feat = set(root["feat"])

        def answerer(dec, w):
            ga = w << gbits
            for wmap, name, (s, e, ratio) in dec.bus.memory_map.windows():
                if s <= ga < s + (1 << wmap.addr_width):
                    kind, comp = h.owner[id(wmap)]
                    if kind == "wbdec":
                        return answerer(comp, w - (s >> gbits))
                    return kind, comp
            return None
        dec_root = h.owner[id(rmap)][1]

        async def transfer(ctx, w, sel, we, dat_w, tag, idle=True):
            ans = answerer(dec_root, w)
            where = f"{tag} word {w:#x} sel={sel:#b} we={we} (answered by {ans[0] if ans else 'nobody'})"
            if wb.addr_width:
                ctx.set(wb.adr, w)
            ctx.set(wb.sel, sel); ctx.set(wb.we, we); ctx.set(wb.dat_w, dat_w)
            ctx.set(wb.cyc, 1); ctx.set(wb.stb, 1)
            counts = {}
            acked = None
            for i in range(R + 4):
                drive_leaf_values(ctx)
                sample(ctx, counts, where)
                if ctx.get(wb.ack):
                    acked = ctx.get(wb.dat_r)
                    tick[0] += 1
                    await ctx.tick()
                    break
                tick[0] += 1
                await ctx.tick()
            if idle or acked is None:
                # the cycle between two transfers: bus released, or the cycle held with the strobe
                # low (wait state of a block cycle) / a strobe without cycle, the other request lines
                # carrying anything - none of which is an access
                v = hval(seed, "idlekind", tick[0], 2)
                ctx.set(wb.cyc, int(v == 1)); ctx.set(wb.stb, int(v == 2))
                if v in (1, 2):
                    stats.label("idle_cyc_only" if v == 1 else "idle_stb_only")
                    if wb.addr_width:
                        ctx.set(wb.adr, hval(seed, "idleadr", tick[0], wb.addr_width))
                    ctx.set(wb.sel, hval(seed, "idlesel", tick[0], R)); ctx.set(wb.we, hval(seed, "idlewe", tick[0], 1))
                    ctx.set(wb.dat_w, hval(seed, "idledat", tick[0], dwid))
                drive_leaf_values(ctx)
                sample(ctx, counts, where + " (idle cycle after)")
                if ctx.get(wb.ack):
                    raise Violation("C01/ack-while-idle", f"{where}: ack asserted with cyc/stb low")
                tick[0] += 1
                await ctx.tick()
            else:
                stats.label("back_to_back_transfers")    # the next transfer is presented right after the ack cycle
            # who answered
            if ans is None:
                stats.label("unanswered_word")
                if acked is not None:
                    raise Violation("C01/unassigned-acknowledged", f"{where}: the word belongs to no window but was acknowledged")
            elif acked is None:
                raise Violation("C01/assigned-not-acknowledged", f"{where}: no acknowledge within {R + 4} cycles")
            granules = [w * R + i for i in range(R) if (sel >> i) & 1]
            # SRAM cycles only on the SRAM that answers
            for k, s in enumerate(srams):
                sel_here = ans is not None and ans[1] is s
                if bool(counts.get(("c", k))) != sel_here or counts.get(("a", k), 0) != (1 if sel_here else 0):
                    raise Violation("C01/sram-cycle", f"{where}: SRAM #{k} saw {counts.get(('c', k), 0)} request cycles and "
                                    f"{counts.get(('a', k), 0)} acks, expected {'one transfer' if sel_here else 'none'}")
            lanes_w = {w * R + i: (dat_w >> (i * unit)) & ((1 << unit) - 1) for i in range(R)}
            exp_lanes = judge(counts, granules, we, lanes_w, where)
            if ans is not None and ans[0] == "bridge" and all(amap[a] is None for a in range(w * R, w * R + R)):
                stats.label("hole_inside_bridge")
            if we:
                for a in granules:
                    x = amap[a]
                    if x is not None and x[0].is_mem and sram_of[id(x[0].res)].writable:
                        l, c = x
                        row, lane = divmod(c, ratio_mem(l))
                        m = ((1 << unit) - 1) << (lane * unit)
                        images[id(l.res)][row] = (images[id(l.res)][row] & ~m) | (lanes_w[a] << (lane * unit))
                for l in mems:
                    touched = {amap[a][1] // ratio_mem(l) for a in range(w * R, w * R + R) if amap[a] is not None and amap[a][0] is l}
                    for row in touched | {0, l.res.data.depth - 1}:
                        g_ = ctx.get(l.res.data[row])
                        if g_ != images[id(l.res)][row]:
                            raise Violation("C01/sram-contents", f"{where}: {l.info.path} row {row} holds {g_:#x}, expected "
                                            f"{images[id(l.res)][row]:#x}")
            elif acked is not None:
                for i in range(R):
                    if (sel >> i) & 1:
                        e = exp_lanes[w * R + i]
                        gl = (acked >> (i * unit)) & ((1 << unit) - 1)
                        if e is not None and gl != e:
                            x = amap[w * R + i]
                            raise Violation("C01/read-data", f"{where}: lane {i} (map address {w * R + i:#x} -> "
                                            f"{x[0].info.path if x else None} chunk {x[1] if x else None}) reads {gl:#x}, expected {e:#x}")

        async def tb(ctx):
            for sweep in (0, 1):
                for we in (0, 1):
                    for w in visit(nwords, R):
                        sel = (1 << R) - 1 if sweep == 0 else hval(seed, f"sel{sweep}{we}", w, R)
                        await transfer(ctx, w, sel, we, hval(seed, f"dw{sweep}", w, dwid), f"sweep {sweep} {'write' if we else 'read'}",
                                       idle=(sweep == 0))
                    ctx.set(wb.cyc, 0); ctx.set(wb.stb, 0)
                    await ctx.tick()
            for l in mems:
                for row in range(l.res.data.depth):
                    g_ = ctx.get(l.res.data[row])
                    if g_ != images[id(l.res)][row]:
                        raise Violation("C01/sram-contents", f"final image: {l.info.path} row {row} holds {g_:#x}, expected {images[id(l.res)][row]:#x}")
    else:
        cb = bus

        async def access(ctx, a, we, data, tag):
            where = f"{tag} address {a:#x} {'write' if we else 'read'}"
            ctx.set(cb.addr, a); ctx.set(cb.r_stb, 0 if we else 1); ctx.set(cb.w_stb, 1 if we else 0); ctx.set(cb.w_data, data)
            counts = {}
            drive_leaf_values(ctx)
            sample(ctx, counts, where)
            tick[0] += 1
            await ctx.tick()
            ctx.set(cb.r_stb, 0); ctx.set(cb.w_stb, 0)
            drive_leaf_values(ctx)
            sample(ctx, counts, where)
            rd = ctx.get(cb.r_data)
            tick[0] += 1
            await ctx.tick()
            exp_lanes = judge(counts, [a], we, {a: data}, where)
            if not we:
                e = exp_lanes[a]
                if e is not None and rd != e:
                    x = amap[a]
                    raise Violation("C01/read-data", f"{where} ({x[0].info.path if x else None} chunk {x[1] if x else None}): "
                                    f"r_data={rd:#x}, expected {e:#x}")

        async def burst(ctx, l):
            """Three complete writes to a one-word register in three consecutive cycles (a held write
            strobe with changing data): each of them is an access that reaches the register."""
            k = regs.index(l)
            a = l.info.start
            where = f"burst of 3 writes to {l.info.path} at {a:#x}"
            counts = {}
            data = [hval(seed, "burst", f"{a}.{j}", unit) for j in range(3)]
            seen = []
            for j in range(4):
                ctx.set(cb.addr, a); ctx.set(cb.r_stb, 0); ctx.set(cb.w_stb, int(j < 3)); ctx.set(cb.w_data, data[min(j, 2)])
                drive_leaf_values(ctx)
                before = counts.get(("w", k), 0)
                sample(ctx, counts, where)
                if counts.get(("w", k), 0) != before:
                    seen.append(l.wdata_seen & ((1 << l.width) - 1))
                tick[0] += 1
                await ctx.tick()
            want = [d & ((1 << l.width) - 1) for d in data]
            got = {key: v for key, v in counts.items() if key[0] in ("r", "w")}
            if got != {("w", k): 3} or seen != want:
                raise Violation("C01/leaf-strobes", f"{where}: write strobes {got} with data {[hex(x) for x in seen]}, the memory map "
                                f"implies three strobes of this register with data {[hex(x) for x in want]}")
            for o in regs:
                o.wbuf = {}
            stats.label("burst_of_writes_to_one_register")

        async def tb(ctx):
            for sweep in (0, 1):
                for we in (0, 1):
                    for a in visit(naddr, 1):
                        if sweep == 1 and hval(seed, f"skip{we}", a, 2) == 0:
                            continue
                        await access(ctx, a, we, hval(seed, f"cw{sweep}", a, unit), f"sweep {sweep}")
            for l in regs:
                if l.writable and l.info.end - l.info.start == 1 and 0 < l.width <= unit and amap[l.info.start] is not None:
                    await burst(ctx, l)

    for l in regs:
        l.snap_new = 0
        l.wdata_seen = 0
    try:
        sim.simulate(top, tb)
    except ValueError as e:
        from vlib.common import deliberate_refusal
        if deliberate_refusal(e) and "finite_sharing_limit" in h.labels and "cannot be balanced" in str(e):
            stats.label("refused_unbalanceable_layout")      # an unaligned layout with a finite sharing limit: no verdict here (C04/C05/C19)
            return
        raise
    stats.add("simulated_cycles", tick[0])
    kinds = {l.kind for l in leaves}
    stats.nontrivial = (depth >= 2 and len(leaves) >= 3 and len(kinds) >= 2 and stats.has("multi_chunk_leaf")
                        and stats.has("unassigned_address"))
