"""C02 — memory-map allocation never overlaps, overflows, misaligns or half-applies.

Histories of add_resource / add_window / align_to / freeze / implicit-freeze calls on a pool of
maps are applied to the real MemoryMap objects and to an allocator model written from the
statement (list of half-open ranges, brute-force overlap scan, cursor, frozen flag).
"""
from hypothesis import strategies as st

from amaranth.lib import wiring
from amaranth_soc.memory import MemoryMap
from amaranth_soc import csr, periph
from amaranth_soc.csr import action

from vlib.common import Violation

RULE = ("Hypothesis-generated histories (1-30 ops) on a pool of 1-4 maps; addresses are drawn "
        "relative to existing range ends so that placements touch/straddle them. A history is "
        "non-trivial when it has >=3 successful placements, >=1 refused call that is later "
        "followed by a successful implicit placement on the same map, and >=1 explicit placement "
        "below the highest range already placed in that map. Distinct = distinct canonical JSON.")
BUDGET = {"quick": (16, 1500), "thorough": (16, 40000)}
ESSENTIAL = ["placed_flush_with_end_of_map", "bulk_fill_over_256", "huge_address_space", "name_reused_after_refusal", "fail_then_implicit_ok", "explicit_before_existing", "touch_end", "dense_ratio_gt1",
             "frozen_add_refused", "window_ok", "grey_zone"]
ASSUMPTIONS = [
    "resource/window names are unique counters, so a namespace conflict is never the reason for a refusal (C18 covers names)",
    "windows only go from a lower-indexed to a higher-indexed map of the pool (no cycles)",
    "dense windows of ratio > 1 are only requested over maps without windows of their own; for them placement address is taken from the implementation and only disjointness, bounds, span >= 2**aw/ratio, reporting and atomicity are checked",
    "explicit address that is a multiple of the map alignment but not of the per-call alignment: either honoured exactly or rejected",
]


class Res(wiring.Component):
    def __init__(self):
        super().__init__({})


def _reg():
    return csr.Register(csr.Field(action.R, 1), access="r")


# ---------------------------------------------------------------------------------------- strategy

def _addr():
    from vlib.gens import weighted
    return weighted(
        (3, st.just(["none"])),
        (1, st.tuples(st.just("abs"), st.integers(0, 40)).map(list)),
        (1, st.tuples(st.just("frac"), st.integers(0, 16)).map(list)),
        (1, st.tuples(st.sampled_from(["start", "end"]), st.integers(0, 7), st.integers(-2, 2)).map(list)),
        (1, st.tuples(st.sampled_from(["start", "end"]), st.integers(0, 7), st.sampled_from([-8, -4, -1, 0, 0, 1, 4])).map(list)),
        (1, st.tuples(st.just("slot"), st.integers(0, 9)).map(list)),
        (1, st.tuples(st.just("top"), st.integers(0, 300)).map(list)),
        (2, st.tuples(st.just("overhang"), st.integers(0, 7)).map(list)),    # ends 0..7 units beyond the end of the map
        (1, st.tuples(st.just("fracplus"), st.integers(1, 15), st.integers(1, 300)).map(list)),
        (1, st.tuples(st.just("bad"), st.sampled_from(["neg", "str", "float", "huge"])).map(list)),
    )


def _size():
    return st.one_of(st.integers(0, 9), st.integers(0, 4),
                     st.sampled_from([1, 2, 4, 8, 16, 32, 64, 3, 5, 100, 1 << 20]),
                     st.sampled_from(["neg", "str"]),
                     # a sizeable share of the whole map (["pow", d] = 2**(addr_width-d) addresses; huge in huge maps)
                     st.tuples(st.just("pow"), st.integers(1, 4)).map(list))


def _align():
    from vlib.gens import weighted
    return weighted((3, st.none()), (1, st.integers(0, 4)), (1, st.integers(0, 2)), (1, st.sampled_from([-1, "x", 5])))


def _op(nmaps):
    mi = st.integers(0, nmaps - 1)
    res = st.tuples(st.just("res"), mi, _size(), _addr(), _align()).map(list)
    win = st.tuples(st.just("win"), mi, mi, _addr(), st.sampled_from([None, None, False, False, True]),
                    st.booleans()).map(list)
    scatter = st.tuples(st.just("res"), mi, st.integers(0, 3),
                        st.one_of(st.tuples(st.just("frac"), st.integers(0, 16)).map(list),
                                  st.tuples(st.sampled_from(["start", "end"]), st.integers(0, 7),
                                            st.sampled_from([-4, -2, -1, 0, 1])).map(list)),
                        st.sampled_from([None, None, 0, 1])).map(list)
    from vlib.gens import weighted
    return weighted(
        (3, res), (3, scatter),
        (1, st.tuples(st.just("res"), mi, st.integers(1, 4), st.just(["none"]), st.none()).map(list)),
        (3, win),
        (1, st.tuples(st.just("align"), mi, st.sampled_from([0, 1, 2, 3, 4, 5, 0, 1, 2, 3, 4, 5, -1, "x"])).map(list)),
        (1, st.tuples(st.sampled_from(["freeze", "res_again", "badobj"]), mi,
                      st.sampled_from(["freeze", "periph", "bridge", "res", "win", 0, 1, 2])).map(list)),
    )


@st.composite
def _spec(draw, tier):
    nmaps = draw(st.integers(1, 4))
    maps = []
    for i in range(nmaps):
        if i == 0:
            aw = draw(st.integers(3, 10)) if draw(st.integers(0, 7)) else draw(st.sampled_from([40, 54, 60, 64, 64, 65, 72]))
            dw = draw(st.sampled_from([8, 16, 32, 32, 64, 24, 48]))
        else:
            aw = draw(st.integers(1, max(1, min(6, maps[0]["aw"] - 1))))
            dw = draw(st.sampled_from([maps[0]["dw"], maps[0]["dw"], 8, 16, 32, 64, 12, 24]))
        al = draw(st.sampled_from([0, 0, 1, 2, 3]))
        maps.append({"aw": aw, "dw": dw, "al": al})
    regs = draw(st.sampled_from([False, False, False, True]))
    lo = draw(st.integers(1, 20 if tier == "quick" else 35))
    ops = draw(st.lists(_op(nmaps), min_size=lo, max_size=lo + 10))
    # one case in 25 starts with a long run of implicit placements on map 0 (several hundred ranges)
    if not regs and maps[0]["aw"] >= 10 and draw(st.integers(0, 24)) == 0:
        ops = [["bulk", 0, draw(st.integers(258, 280))]] + ops[:8]
    return {"maps": maps, "regs": regs, "ops": ops}


def strategy(tier):
    return _spec(tier)


# ---------------------------------------------------------------------------------------- model

def align_up(v, k):
    m = 1 << k
    return ((v + m - 1) // m) * m


class MMap:
    def __init__(self, aw, dw, al):
        self.aw, self.dw, self.al = aw, dw, al
        self.items = []        # [kind, obj, name, start, end, ratio]
        self.cursor = 0
        self.frozen = False

    def overlaps(self, s, e):
        return [it for it in self.items if s < it[4] and it[3] < e]

    def has_windows(self):
        return any(it[0] == "win" for it in self.items)


BAD = {"neg": -3, "str": "12", "float": 2.0, "huge": 1 << 40}


def _snapshot(m):
    res = [(id(r), tuple(n), rng) for r, n, rng in m.resources()]
    win = [(id(w), None if n is None else tuple(n), rng) for w, n, rng in m.windows()]
    allr = [(id(i.resource), tuple(tuple(p) for p in i.path), i.start, i.end, i.width)
            for i in m.all_resources()]
    return res, win, allr


def _expected_reports(mm):
    items = sorted(mm.items, key=lambda it: it[3])
    res = [(id(it[1]), it[2], (it[3], it[4])) for it in items if it[0] == "res"]
    win = [(id(it[1]), it[2], (it[3], it[4], it[5])) for it in items if it[0] == "win"]
    return res, win


def _resolve_addr(a, mm, unit):
    kind = a[0]
    if kind == "none":
        return None, False
    if kind == "abs":
        return a[1], False
    if kind == "frac":
        return (a[1] << mm.aw) // 16, False
    if kind == "top":
        return max(0, (1 << mm.aw) - a[1]), False
    if kind == "overhang":
        return max(0, (1 << mm.aw) - unit + a[1]), False
    if kind == "fracplus":
        return ((a[1] << mm.aw) // 16 + a[2]) % (1 << mm.aw), False
    if kind == "bad":
        return BAD[a[1]], a[1] != "huge"
    if kind == "slot":
        return a[1] * unit, False
    if not mm.items:
        return max(0, a[2]), False
    it = sorted(mm.items, key=lambda it: it[3])[a[1] % len(mm.items)]
    v = (it[3] if kind == "start" else it[4]) + a[2]
    return max(0, v), False


def check(spec, stats):
    maps = [MemoryMap(addr_width=d["aw"], data_width=d["dw"], alignment=d["al"]) for d in spec["maps"]]
    model = [MMap(d["aw"], d["dw"], d["al"]) for d in spec["maps"]]
    counter = [0]
    new_res = _reg if spec["regs"] else Res
    placements = 0
    failed_on = set()
    stats.label("huge_address_space", spec["maps"][0]["aw"] >= 54)

    retry = {}

    def fresh_name(i=None):
        # a name whose add was refused was never registered: the next add on that map re-uses it, so
        # that a refusal that nevertheless reserved the name shows up as a refused legal call
        if i is not None and i in retry:
            stats.label("name_reused_after_refusal")
            return retry.pop(i)
        counter[0] += 1
        return (f"n{counter[0]}",)

    def verify(i, where):
        m, mm = maps[i], model[i]
        res, win, _ = _snapshot(m)
        eres, ewin = _expected_reports(mm)
        if res != eres:
            raise Violation("C02/report/resources", f"{where}: resources() = {res}, model = {eres}")
        if win != ewin:
            raise Violation("C02/report/windows", f"{where}: windows() = {win}, model = {ewin}")
        its = mm.items
        if len(its) > 64:
            # long maps: sort by start and compare neighbours (still no code shared with memory.py)
            srt = sorted(its, key=lambda it: it[3])
            for a, b in zip(srt, srt[1:]):
                if a[4] > b[3]:
                    raise Violation("C02/overlap", f"{where}: {a[3:5]} overlaps {b[3:5]}")
            for a in srt:
                if a[3] < 0 or a[4] > (1 << mm.aw) or a[4] <= a[3]:
                    raise Violation("C02/bounds", f"{where}: range {a[3:5]} outside [0, 2**{mm.aw})")
            return
        for a in range(len(its)):
            if its[a][3] < 0 or its[a][4] > (1 << mm.aw) or its[a][4] <= its[a][3]:
                raise Violation("C02/bounds", f"{where}: range {its[a][3:5]} outside [0, 2**{mm.aw})")
            for b in range(a + 1, len(its)):
                if its[a][3] < its[b][4] and its[b][3] < its[a][4]:
                    raise Violation("C02/overlap", f"{where}: {its[a][3:5]} overlaps {its[b][3:5]}")

    def attempt(i, fn, where, *, must, predict=None, kind=None, obj=None, name=None,
                min_span=None, ratio=1, explicit=None):
        """must: 'ok' | 'raise' | 'either'. predict: expected start (or None = unknown)."""
        nonlocal placements
        m, mm = maps[i], model[i]
        before = [_snapshot(x) for x in maps]
        try:
            ret = fn()
        except Exception as e:
            if isinstance(e, Violation):
                raise
            if must == "ok":
                raise Violation("C02/legal-call-refused", f"{where}: model says the call is valid "
                                f"(start {predict}, span {min_span}) but it raised {type(e).__name__}: {e}")
            after = [_snapshot(x) for x in maps]
            if before != after:
                raise Violation("C02/atomicity/queries-changed", f"{where}: raised {type(e).__name__} "
                                f"but query results changed")
            failed_on.add(i)
            if name is not None and len(name) == 1 and name[0].startswith("n"):
                retry[i] = name
            stats.label("refused_call")
            if mm.frozen:
                stats.label("frozen_add_refused")
            return None
        if must == "raise":
            raise Violation("C02/illegal-call-accepted", f"{where}: model says the call must be "
                            f"refused but it returned {ret!r}")
        start, end = ret[0], ret[1]
        if kind == "win":
            if ret[2] != ratio:
                raise Violation("C02/window-ratio", f"{where}: returned ratio {ret[2]}, expected {ratio}")
        if predict is not None and start != predict:
            raise Violation("C02/placement", f"{where}: placed at {start:#x}, expected {predict:#x} "
                            f"(cursor {mm.cursor:#x})")
        if explicit is not None and start != explicit:
            raise Violation("C02/explicit-not-honoured", f"{where}: explicit address {explicit:#x} "
                            f"but placed at {start:#x}")
        if end - start < min_span:
            raise Violation("C02/span-too-small", f"{where}: span {end - start} < required {min_span}")
        if start < 0 or end > (1 << mm.aw):
            raise Violation("C02/bounds", f"{where}: returned {start:#x}..{end:#x} outside the map")
        if explicit is None and start < mm.cursor:
            raise Violation("C02/placement", f"{where}: implicit placement at {start:#x} before the "
                            f"cursor {mm.cursor:#x}")
        ov = mm.overlaps(start, end)
        if ov:
            raise Violation("C02/overlap", f"{where}: returned {start:#x}..{end:#x} overlaps "
                            f"{[(o[3], o[4]) for o in ov]}")
        if end == (1 << mm.aw):
            stats.label("placed_flush_with_end_of_map")
        if mm.items and explicit is not None and start < max(it[3] for it in mm.items):
            stats.label("explicit_before_existing")
        if any(it[4] == start or it[3] == end for it in mm.items):
            stats.label("touch_end")
        if explicit is None and i in failed_on:
            stats.label("fail_then_implicit_ok")
        mm.items.append([kind, obj, name, start, end, ratio])
        mm.cursor = end
        placements += 1
        return ret

    for n, op in enumerate(spec["ops"]):
        where = f"op#{n} {op}"
        k = op[0]
        i = op[1]
        m, mm = maps[i], model[i]
        if k == "res":
            _, _, size, addr, al = op
            obj = new_res()
            name = fresh_name(i)
            bad = False
            if isinstance(size, str):
                size_v = {"neg": -1, "str": "4"}[size]; bad = True
            elif isinstance(size, list):
                size_v = (1 << max(mm.aw - size[1], 0)) + (5 if size[1] == 4 else 0)
                stats.label("resource_of_2**63_addresses_or_more", size_v >= (1 << 63))
            else:
                size_v = size
            if al is None:
                eff = mm.al
            elif not isinstance(al, int) or al < 0:
                eff = mm.al; bad = True
            else:
                eff = max(al, mm.al)
            addr_v, addr_bad = _resolve_addr(addr, mm, 1 << eff)
            bad = bad or addr_bad
            kwargs = dict(name=name, size=size_v)
            if addr_v is not None or addr[0] != "none":
                kwargs["addr"] = addr_v
            if al is not None:
                kwargs["alignment"] = al
            fn = lambda: m.add_resource(obj, **kwargs)
            if bad or mm.frozen:
                attempt(i, fn, where, must="raise", name=name)
            else:
                span = align_up(max(size_v, 1), eff)
                if addr_v is None:
                    start = align_up(mm.cursor, eff)
                    valid = start + span <= (1 << mm.aw) and not mm.overlaps(start, start + span)
                    attempt(i, fn, where, must="ok" if valid else "raise", predict=start, kind="res",
                            obj=obj, name=name, min_span=span)
                elif addr_v % (1 << mm.al) != 0:
                    attempt(i, fn, where, must="raise", name=name)
                else:
                    start = addr_v
                    valid = start + span <= (1 << mm.aw) and not mm.overlaps(start, start + span)
                    if start % (1 << eff) != 0:
                        stats.label("grey_zone")
                        must = "either" if valid else "raise"
                    else:
                        must = "ok" if valid else "raise"
                    attempt(i, fn, where, must=must, predict=start, kind="res", obj=obj, name=name,
                            min_span=span, explicit=start)
        elif k == "bulk":
            # a long run of implicit single-unit placements (maps with several hundred ranges); checked
            # call by call against the model, full verification once at the end
            if mm.frozen:
                continue
            for j in range(op[2]):
                obj = new_res()
                counter[0] += 1
                name = (f"n{counter[0]}",)
                start = align_up(mm.cursor, mm.al)
                span = align_up(1, mm.al)
                valid = start + span <= (1 << mm.aw) and not mm.overlaps(start, start + span)
                try:
                    ret = m.add_resource(obj, name=name, size=1)
                except Exception as e:
                    if valid:
                        raise Violation("C02/legal-call-refused", f"{where} #{j} ({len(mm.items)} ranges present): implicit "
                                        f"placement at {start:#x} refused with {type(e).__name__}: {e}")
                    break
                if not valid:
                    raise Violation("C02/illegal-call-accepted", f"{where} #{j}: returned {ret!r}")
                if ret != (start, start + span):
                    raise Violation("C02/placement", f"{where} #{j}: placed at {ret}, expected {(start, start + span)}")
                mm.items.append(["res", obj, name, start, start + span, 1])
                mm.cursor = start + span
                placements += 1
            stats.label("bulk_fill_over_256", len(mm.items) > 257)
        elif k == "res_again":
            if not isinstance(op[2], int):
                continue
            res_items = [it for it in mm.items if it[0] == "res"]
            if not res_items:
                continue
            it = res_items[op[2] % len(res_items)]
            name = fresh_name()
            attempt(i, lambda: m.add_resource(it[1], name=name, size=1), where, must="raise")
            stats.label("duplicate_refused")
        elif k == "badobj":
            if op[2] not in ("res", "win"):
                continue
            if op[2] == "res":
                attempt(i, lambda: m.add_resource(object(), name=fresh_name(), size=1), where, must="raise")
            else:
                attempt(i, lambda: m.add_window(object()), where, must="raise")
        elif k == "align":
            al = op[2]
            if not isinstance(al, int) or al < 0:
                attempt(i, lambda: m.align_to(al), where, must="raise")
            else:
                r = m.align_to(al)
                exp = align_up(mm.cursor, max(al, mm.al))
                if r != exp:
                    raise Violation("C02/align_to", f"{where}: returned {r:#x}, expected {exp:#x}")
                mm.cursor = exp
                stats.label("align_to")
        elif k == "freeze":
            how = op[2]
            if how not in ("freeze", "periph", "bridge"):
                continue
            if how == "freeze":
                m.freeze(); mm.frozen = True
            elif how == "periph":
                periph.PeripheralInfo(memory_map=m); mm.frozen = True
            else:
                legal = not mm.has_windows() and (spec["regs"] or not any(it[0] == "res" for it in mm.items))
                before = [_snapshot(x) for x in maps]
                try:
                    csr.Bridge(m)
                    ok = True
                except (ValueError, TypeError):
                    ok = False
                if ok != legal:
                    raise Violation("C02/bridge-accept", f"{where}: csr.Bridge accepted={ok}, expected {legal}")
                if ok:
                    mm.frozen = True
                elif before != [_snapshot(x) for x in maps]:
                    raise Violation("C02/atomicity/queries-changed", f"{where}: refused Bridge changed queries")
            stats.label("frozen_by_" + how)
        elif k == "win":
            _, _, j, addr, sparse, named = op
            if j <= i:
                continue
            c, cm = maps[j], model[j]
            name = fresh_name(i) if named else None
            must_raise = mm.frozen or any(it[1] is c for it in mm.items)
            if cm.dw > mm.dw:
                must_raise = True
            ratio = 1
            if cm.dw != mm.dw:
                if sparse is None:
                    must_raise = True
                elif not sparse:
                    if mm.dw % cm.dw != 0:
                        must_raise = True
                    else:
                        ratio = mm.dw // cm.dw
            if ratio & (ratio - 1):
                must_raise = True
            if ratio > (1 << cm.al):
                must_raise = True
            if ratio > 1 and cm.has_windows():
                continue   # outside the stated domain (dense over a non-leaf map)
            size = (1 << cm.aw) // ratio if not must_raise else 1
            addr_v, addr_bad = _resolve_addr(addr, mm, max(size, 1))
            kwargs = {}
            if name is not None:
                kwargs["name"] = name
            if addr[0] != "none":
                kwargs["addr"] = addr_v
            if sparse is not None:
                kwargs["sparse"] = sparse
            fn = lambda: m.add_window(c, **kwargs)
            if must_raise or addr_bad:
                attempt(i, fn, where, must="raise", name=name)
                continue

            def done(ret):
                if ret is not None:
                    cm.frozen = True
                    stats.label("window_ok")
                    if ratio > 1:
                        stats.label("dense_ratio_gt1")
                    if sparse and cm.dw != mm.dw:
                        stats.label("sparse_window")

            if ratio == 1:
                eff = max(mm.al, cm.aw)
                span = align_up(max(size, 1), eff)
                if addr_v is None:
                    start = align_up(mm.cursor, eff)
                    valid = start + span <= (1 << mm.aw) and not mm.overlaps(start, start + span)
                    done(attempt(i, fn, where, must="ok" if valid else "raise", predict=start,
                                 kind="win", obj=c, name=name, min_span=span, ratio=1))
                elif addr_v % (1 << mm.al) != 0:
                    attempt(i, fn, where, must="raise", name=name)
                else:
                    start = addr_v
                    valid = start + span <= (1 << mm.aw) and not mm.overlaps(start, start + span)
                    if start % (1 << eff) != 0:
                        stats.label("grey_zone")
                        must = "either" if valid else "raise"
                    else:
                        must = "ok" if valid else "raise"
                    done(attempt(i, fn, where, must=must, predict=start, kind="win", obj=c, name=name,
                                 min_span=span, ratio=1, explicit=start))
            else:
                # numeric alignment rule not claimed: either outcome, result validated
                if addr_v is not None and addr_v % (1 << mm.al) != 0:
                    attempt(i, fn, where, must="raise", name=name)
                else:
                    done(attempt(i, fn, where, must="either", kind="win", obj=c, name=name,
                                 min_span=size, ratio=ratio, explicit=addr_v))
        for x in range(len(maps)):
            verify(x, where)

    # final probe: the cursor of every map is where the model says (implicit placement of 1 unit)
    for i, (m, mm) in enumerate(zip(maps, model)):
        obj = new_res()
        name = ("probe",)
        fn = lambda: m.add_resource(obj, name=name, size=1)
        where = f"final probe on map {i}"
        if mm.frozen:
            attempt(i, fn, where, must="raise")
        else:
            start = align_up(mm.cursor, mm.al)
            span = align_up(1, mm.al)
            valid = start + span <= (1 << mm.aw) and not mm.overlaps(start, start + span)
            attempt(i, fn, where, must="ok" if valid else "raise", predict=start, kind="res",
                    obj=obj, name=name, min_span=span)
        verify(i, where)

    stats.add("ops", len(spec["ops"]))
    stats.add("placements", placements)
    stats.nontrivial = (placements >= 3 and stats.has("fail_then_implicit_ok")
                        and stats.has("explicit_before_existing"))


def pinned():
    return [
        ("touching-insert-between", {"maps": [{"aw": 6, "dw": 8, "al": 0}], "regs": False, "ops": [
            ["res", 0, 4, ["abs", 8], None], ["res", 0, 4, ["abs", 16], None],
            ["res", 0, 4, ["abs", 12], None], ["res", 0, 8, ["abs", 0], None],
            ["res", 0, 2, ["abs", 11], None], ["res", 0, 1, ["none"], None]]}),
        ("fail-keeps-cursor", {"maps": [{"aw": 4, "dw": 8, "al": 1}], "regs": False, "ops": [
            ["res", 0, 3, ["none"], None], ["res", 0, 100, ["none"], None],
            ["res", 0, 1, ["abs", 2], None], ["res", 0, 1, ["none"], 2]]}),
    ]
