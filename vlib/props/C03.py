"""C03 — resource lookup through windows is coherent in every direction."""
from hypothesis import strategies as st

from amaranth.lib import wiring
from amaranth_soc.memory import MemoryMap

from vlib.common import Violation

RULE = ("Trees of memory maps (depth <= 4) generated top-down for data widths and built bottom-up: "
        "leaf maps with 0-4 resources (gaps, alignment), inner maps mixing resources and windows — "
        "ratio-1 and sparse windows at any level, dense windows of ratio 2/4/8 only over leaf maps "
        "whose alignment admits them; named/anonymous; implicit, align_to and explicit placement. "
        "Oracle: plain address arithmetic on the values returned by add_resource/add_window. "
        "all_resources(), find_resource() (every resource + never-added objects) and "
        "decode_address() for EVERY root address are compared with it. Non-trivial = depth >= 2 and "
        "a resource behind a window with non-zero base and non-zero local offset. Distinct = "
        "canonical JSON.")
BUDGET = {"quick": (16, 500), "thorough": (16, 12000)}
ESSENTIAL = ["beyond_2**53", "multipart_window_name", "depth>=2", "depth>=3", "dense", "sparse", "anonymous", "named", "hole_decoded",
             "nonzero_base_and_offset", "dense_nonzero_offset", "foreign_resource_keyerror"]
ASSUMPTIONS = [
    "dense windows only over leaf maps (dense over non-leaf and dense-then-sparse stacks are outside the stated domain; the code asserts there)",
    "names are unique counters (C18 covers naming)",
    "a generated tree that does not fit its parent (ValueError from add_*) is counted as refused, not as a violation",
]


class Res(wiring.Component):
    def __init__(self):
        super().__init__({})


# Resource objects are arbitrary user components: their own notions of truth, length, equality and
# hashing are theirs and must not leak into address lookups (which go by object identity).
class FalsyLen(Res):
    def __len__(self):
        return 0


class FalsyBool(Res):
    def __bool__(self):
        return False


class ValEq(Res):
    """All instances compare equal and hash alike (e.g. registers 'equal when width and access match')."""
    def __eq__(self, other):
        return isinstance(other, ValEq)

    def __hash__(self):
        return 7


class EqRaises(Res):
    """Like an Amaranth value: == does not return a bool usable for lookups."""
    def __eq__(self, other):
        raise TypeError("comparison is not defined")

    __hash__ = object.__hash__


ODD_CLASSES = [FalsyLen, FalsyBool, ValEq, ValEq, EqRaises, Res]


def _make_res(n, odd):
    return ODD_CLASSES[(n * 2654435761 >> 7) % len(ODD_CLASSES)]() if odd else Res()


def _res_item():
    return st.tuples(st.just("res"), st.integers(0, 5), st.sampled_from(["imp", "imp", "align", "gap"]),
                     st.integers(0, 3)).map(list)


@st.composite
def _node(draw, dw, depth, min_al=0):
    al = min_al + draw(st.sampled_from([0, 0, 0, 1, 2]))
    items = []
    n = draw(st.integers(1, 4))
    for j in range(n):
        if depth > 0 and draw(st.integers(0, 7 if j == 0 else 2)) > 0:
            kind = draw(st.sampled_from(["same", "same", "sparse", "dense", "dense"]))
            named = draw(st.booleans())
            mode = draw(st.sampled_from(["imp", "imp", "align", "slot"]))
            k = draw(st.integers(0, 3))
            if kind == "sparse" and dw > 8:
                cdw = draw(st.sampled_from([x for x in (8, 16, 32) if x < dw]))
                child = draw(_node(cdw, depth - 1))
                items.append(["win", child, "sparse", named, mode, k])
            elif kind == "dense" and dw > 8:
                ratio = draw(st.sampled_from([r for r in (2, 4, 8) if dw // r >= 8]))
                child = draw(_node(dw // ratio, 0, min_al=ratio.bit_length() - 1))
                items.append(["win", child, "dense", named, mode, k])
            else:
                child = draw(_node(dw, depth - 1))
                items.append(["win", child, "same", named, mode, k])
        else:
            items.append(draw(_res_item()))
    # one node in forty keeps its first resource beyond 2**53 (address arithmetic must stay exact)
    hb = draw(st.sampled_from([0] * 39 + [(1 << 56) + 2]))
    return {"dw": dw, "al": al, "items": items, "extra_aw": draw(st.integers(0, 1)), "hb": hb,
            # the same placements made in another order of calls (all addresses explicit): the last
            # call is then not the highest item
            "order": draw(st.sampled_from(["asc", "asc", "asc", "desc", "rot"]))}


@st.composite
def _spec(draw, tier):
    dw = draw(st.sampled_from([8, 16, 32, 32, 64]))
    depth = draw(st.sampled_from([1, 2, 2, 3, 3, 4]))
    return {"root": draw(_node(dw, depth)),
            # resource objects with unusual truth value / equality / hashing
            "odd_resources": draw(st.sampled_from([False, False, True])),
            # lookups are also made while the tree is still being built (their answers must not stick)
            "early_queries": draw(st.sampled_from([False, False, True]))}


def strategy(tier):
    return _spec(tier)


# ------------------------------------------------------------------------------------------

def align_up(v, k):
    m = 1 << k
    return ((v + m - 1) // m) * m


class Built:
    def __init__(self, mm, depth):
        self.mm = mm
        self.depth = depth
        self.local = []     # (resource, path(tuple of name tuples), start, end, width) in this map's coordinates


MAX_ROOT_AW = 14


def _build(node, counter, stats):
    """Bottom-up construction; the map is given the smallest address width that holds its items
    (found by trying), plus node['extra_aw']."""
    children = []
    for it in node["items"]:
        if it[0] == "win":
            children.append(_build(it[1], counter, stats))
    base_counter = counter[0]
    last = None
    for aw in range(1, 22) if not _has_hb(node) else range(56, 70):
        counter[0] = base_counter
        try:
            b = _populate(node, children, aw, counter, None)
        except ValueError as e:
            last = e
            continue
        if node["extra_aw"]:
            counter[0] = base_counter
            b = _populate(node, children, aw + 1, counter, stats)
        else:
            counter[0] = base_counter
            b = _populate(node, children, aw, counter, stats)
        return b
    raise last


def _has_hb(node):
    return bool(node.get("hb")) or any(it[0] == "win" and _has_hb(it[1]) for it in node["items"])


class _NoStats:
    def label(self, *a, **k):
        pass


def _populate(node, children, aw, counter, stats):
    stats = stats or _NoStats()
    mm = MemoryMap(addr_width=aw, data_width=node["dw"], alignment=node["al"])
    b = Built(mm, 1 + max(c.depth for c in children) if children else 0)
    calls = []
    ci = 0
    for it in node["items"]:
        counter[0] += 1
        if it[0] == "res":
            _, size, mode, k = it
            r = node.setdefault("_objs", {}).get(counter[0])
            if r is None:
                r = _make_res(counter[0], OPTS["odd"])
            node["_objs"][counter[0]] = r
            n = counter[0]
            name = [(f"r{n}",), (f"r{n}", n % 4), (f"r{n}", "f", "g")][n % 3]
            kw = {}
            if mode == "align":
                mm.align_to(k)
            elif mode == "gap":
                kw["addr"] = align_up(mm.align_to(0) + k, node["al"])
            if node.get("hb") and not any(x[0] == "res" for x in node["items"][:node["items"].index(it)]):
                kw["addr"] = align_up(max(mm.align_to(0), node["hb"]) + k, max(node["al"], 3))
            s, e = mm.add_resource(r, name=name, size=size, **kw)
            b.local.append((r, (name,), s, e, node["dw"]))
            calls.append(("res", r, name, size, s))
            _early(mm, b, r)
        else:
            _, cnode, kind, named, mode, k = it
            c = children[ci]; ci += 1
            n = counter[0]
            name = [(f"w{n}",), (f"w{n}", "bus"), (f"w{n}", n % 3, "x")][n % 3] if named else None
            stats.label("multipart_window_name", named and n % 3 != 0)
            kw = {}
            if kind != "same":
                kw["sparse"] = kind == "sparse"
            exp_ratio = node["dw"] // cnode["dw"] if kind == "dense" else 1
            if mode == "align":
                mm.align_to(k)
            elif mode == "slot":
                span = (1 << c.mm.addr_width) // exp_ratio
                kw["addr"] = align_up(mm.align_to(0), (span - 1).bit_length()) + k * span
            base, end, ratio = mm.add_window(c.mm, name=name, **kw)
            calls.append(("win", c.mm, name, {k_: v_ for k_, v_ in kw.items() if k_ == "sparse"}, base))
            if ratio != exp_ratio:
                raise Violation("C03/window-ratio", f"add_window returned ratio {ratio}, expected {exp_ratio}")
            stats.label(kind if kind != "same" else "ratio1")
            stats.label("named" if named else "anonymous")
            _early(mm, b, None)
            for (r, path, s, e, width) in c.local:
                gs = base + s // ratio
                ge = gs + (e - s) // ratio
                b.local.append((r, ((name,) if named else ()) + path, gs, ge, width * ratio))
                if base and s:
                    stats.label("nonzero_base_and_offset")
                    if ratio > 1:
                        stats.label("dense_nonzero_offset")
    order = node.get("order", "asc")
    if order != "asc" and len(calls) >= 2:
        # the same items at the same (now explicit) addresses, added in another order
        calls = calls[::-1] if order == "desc" else calls[1:] + calls[:1]
        mm2 = MemoryMap(addr_width=aw, data_width=node["dw"], alignment=node["al"])
        for c_ in calls:
            if c_[0] == "res":
                got = mm2.add_resource(c_[1], name=c_[2], size=c_[3], addr=c_[4])
                want = [(s_, e_) for r_, _, s_, e_, _ in b.local if r_ is c_[1]][0]
                if tuple(got) != want:
                    raise Violation("C03/placement-order-dependent", f"add_resource(addr={c_[4]:#x}, size={c_[3]}) returned {got}, "
                                    f"the same call made in ascending order returned {want}")
            else:
                mm2.add_window(c_[1], name=c_[2], addr=c_[4], **c_[3])
        b.mm = mm2
        stats.label("calls_not_in_address_order")
    return b


OPTS = {"odd": False, "early": False}


def _early(mm, b, r):
    """Queries on a map that is still being built (and is not frozen by them)."""
    if not OPTS["early"]:
        return
    mm = _Lookups(mm)
    top = 1 << mm.addr_width
    for a in {0, 1, 2, 3, top - 1, top // 2, mm.align_to(0) % top, (mm.align_to(0) + 1) % top,
              (mm.align_to(0) + (1 << mm.alignment)) % top, (2 * mm.align_to(0)) % top}:
        mm.decode_address(a)
    for _ in mm.all_resources():
        pass
    if r is not None:
        mm.find_resource(r)
    try:
        mm.find_resource(Res())
    except KeyError:
        pass


class _Lookups:
    """The three lookups of a map; an exception other than find_resource's KeyError is a violation
    (e.g. a TypeError out of a resource object's own __eq__ that a lookup had no business calling)."""
    def __init__(self, mm):
        self._mm = mm

    def _call(self, name, *args):
        try:
            r = getattr(self._mm, name)(*args)
            return list(r) if name == "all_resources" else r
        except KeyError:
            raise
        except Exception as e:
            raise Violation(f"C03/{name}-raises", f"{name}({', '.join(type(a).__name__ for a in args)}) raised "
                            f"{type(e).__name__}: {e}")

    def all_resources(self):
        return self._call("all_resources")

    def find_resource(self, r):
        return self._call("find_resource", r)

    def decode_address(self, a):
        return self._call("decode_address", a)

    def __getattr__(self, name):
        return getattr(self._mm, name)


def check(spec, stats):
    counter = [0]
    import copy
    OPTS["odd"] = bool(spec.get("odd_resources"))
    OPTS["early"] = bool(spec.get("early_queries"))
    stats.label("odd_resource_objects", OPTS["odd"])
    stats.label("queries_while_building", OPTS["early"])
    root = copy.deepcopy(spec["root"])
    try:
        b = _build(root, counter, stats)
    except ValueError:
        stats.label("refused_does_not_fit")
        return
    mm = _Lookups(b.mm)
    sample_mode = mm.addr_width > MAX_ROOT_AW
    expected = sorted(b.local, key=lambda x: x[2])
    stats.label(f"depth>={min(b.depth, 3)}")
    if b.depth >= 3:
        stats.label("depth>=2")
    # 1. all_resources: ascending, each once, fields equal
    got = [(i.resource, tuple(tuple(p) for p in i.path), i.start, i.end, i.width) for i in mm.all_resources()]
    exp = [(r, tuple(tuple(p) for p in path), s, e, w) for r, path, s, e, w in expected]
    if len(got) != len(exp) or any(g[0] is not x[0] or g[1:] != x[1:] for g, x in zip(got, exp)):
        def show(lst):
            return [(counter_name(x[1]), x[2], x[3], x[4]) for x in lst]
        raise Violation("C03/all_resources", f"all_resources() = {show(got)}, arithmetic says {show(exp)}")
    # 2. find_resource for every added resource
    for r, path, s, e, w in exp:
        try:
            i = mm.find_resource(r)
        except KeyError:
            raise Violation("C03/find_resource-missing", f"find_resource({counter_name(path)}) raised KeyError")
        g = (tuple(tuple(p) for p in i.path), i.start, i.end, i.width)
        if i.resource is not r or g != (path, s, e, w):
            raise Violation("C03/find_resource", f"find_resource({counter_name(path)}) = {g}, arithmetic says {(path, s, e, w)}")
    # never-added objects
    foreign_map = MemoryMap(addr_width=4, data_width=8)
    foreign = Res()
    foreign_map.add_resource(foreign, name=("foreign",), size=1)
    from amaranth import Signal
    for obj in (Res(), foreign, object(), b.mm, ValEq(), FalsyLen(), EqRaises(), Signal(8)):
        try:
            i = mm.find_resource(obj)
        except KeyError:
            stats.label("foreign_resource_keyerror")
        else:
            raise Violation("C03/find_resource-phantom", f"find_resource(never-added object) returned "
                            f"{(i.path, i.start, i.end)}")
    # 3. decode_address for every root address
    if sample_mode:
        # huge address spaces: decode at every range boundary +-1, inside every range and at a sample of other addresses
        stats.label("huge_root_sampled")
        import bisect
        starts = [s for _, _, s, e, _ in exp]
        top = 1 << mm.addr_width
        pts = {0, top - 1}
        for k, (_, _, s, e, _) in enumerate(exp):
            pts.update(a for a in (s - 1, s, s + 1, (s + e) // 2, e - 1, e, e + 1) if 0 <= a < top)
        seedv = len(exp) * 7919 + mm.addr_width
        pts.update((seedv * (k + 1) * 0x9E3779B97F4A7C15) % top for k in range(200))
        sweep = sorted(pts)

        def owner_of(a):
            k = bisect.bisect_right(starts, a) - 1
            if k >= 0 and exp[k][2] <= a < exp[k][3]:
                return (exp[k][0], exp[k][1])
            return None
        stats.label("beyond_2**53", any(e > (1 << 53) for _, _, s, e, _ in exp))
    else:
        owner = {}
        for r, path, s, e, w in exp:
            for a in range(s, e):
                if a in owner:
                    raise Violation("C03/overlap", f"address {a:#x} claimed twice by the arithmetic (ranges overlap)")
                owner[a] = (r, path)
        sweep = range(1 << mm.addr_width)
        owner_of = owner.get
    holes = 0
    for a in sweep:
        g = mm.decode_address(a)
        x = owner_of(a)
        if x is None:
            holes += 1
            if g is not None:
                raise Violation("C03/decode-phantom", f"decode_address({a:#x}) returned a resource, arithmetic says none "
                                f"(ranges {[(counter_name(p), s, e) for _, p, s, e, _ in exp]})")
        elif g is not x[0]:
            raise Violation("C03/decode", f"decode_address({a:#x}) returned {'nothing' if g is None else 'another resource'}, "
                            f"arithmetic says {counter_name(x[1])} (ranges {[(counter_name(p), s, e) for _, p, s, e, _ in exp]})")
    if holes:
        stats.label("hole_decoded")
    stats.add("addresses_decoded", len(sweep))
    stats.add("resources", len(exp))
    stats.nontrivial = b.depth >= 2 and stats.has("nonzero_base_and_offset")


def counter_name(path):
    return "/".join(".".join(str(x) for x in p) for p in path)
