"""C04 — CSR multiplexer reads are atomic snapshots and side-effect exact."""
# amaranth: UnusedElaboratable=no
from hypothesis import strategies as st

from vlib import gens, muxsim, sim
from vlib.csrmodel import conforming_stimulus, arbitrary_stimulus
from vlib.common import Violation

PROP = "C04"
RULE = ("Generated register layouts (widths 0..5 bus words, r/w/rw, implicit / naturally aligned / "
        "explicit unaligned placement, padding, map alignment 0-2, sharing limit None/0..3) driven "
        "with conforming transaction sequences (complete, aborted, chunk-skipping, pipelined or "
        "spaced, r / w / simultaneous r+w, unmapped accesses) or arbitrary per-cycle stimuli; "
        "register values change every cycle. Every cycle of the real multiplexer is compared with "
        "the reference model (r_stb of every register; bus.r_data). Non-trivial = >= 2 registers and "
        "a multi-chunk readable register read completely. Distinct = canonical JSON.")
BUDGET = {"quick": (16, 500), "thorough": (16, 8000)}
ESSENTIAL = ["beyond_13_address_bits", "high_base_address", "unaligned", "padded", "multi_chunk", "zero_width", "shared_chunk", "stim:conf", "stim:arb",
             "aborted", "pipelined", "simultaneous_rw", "unmapped_access", "finite_overlaps_ok"]
ASSUMPTIONS = [
    "data returned by non-conforming sequences is unspecified and not compared (only strobe exactness and zero-when-idle)",
    "layouts the multiplexer deliberately refuses (finite sharing limit that cannot be met by unaligned registers) are counted as refused",
    "conforming reads always start at chunk 0 of the register",
]


@st.composite
def _spec(draw, tier):
    lay = draw(gens.csr_layout(max_regs=6))
    stim = draw(gens.weighted((2, conforming_stimulus()), (1, arbitrary_stimulus())))
    return {"lay": lay, "stim": stim}


def strategy(tier):
    return gens.with_pre(_spec(tier))


def pinned():
    """Grow-after-elaboration histories whose grown layout keeps three registers on one shadow chunk at
    every shadow size (unaligned multi-word registers): a multiplexer elaborated over its first
    register(s), then extended, then simulated - with unlimited sharing nothing may be refused."""
    out = []
    txns = [{"reg": k % 3, "mode": m, "len": "full", "k": 0, "gap": 1, "inner_gap": 0, "unmapped": "", "pat": "ones"}
            for k, m in enumerate(["r", "w", "r", "rw", "r", "r"])]
    for name, words, late in (("1-2-4", (1, 2, 4), 2), ("1-2-4-late1", (1, 2, 4), 1), ("2-3-6", (2, 3, 6), 2), ("1-3-5", (1, 3, 5), 2)):
        lay = {"dw": 8, "al": 0, "extra_aw": 0, "late": late, "mid_elab": True, "ov": None,
               "regs": [{"w": 8 * n_, "acc": "rw", "mode": "gap", "gap": 0, "pad": 0} for n_ in words]}
        out.append((f"grow-after-elaboration-{name}", {"lay": lay, "stim": {"kind": "conf", "dseed": 5, "txns": txns}, "pre": 0}))
    return out


def stim_labels(stim, facts, lay, stats):
    stats.label("stim:" + stim["kind"])
    for f in facts:
        if f[0] == "unmapped":
            stats.label("unmapped_access")
            continue
        mode, ri, complete, ln, inner_gap, n = f
        r = lay["regs"][ri]
        stats.label("aborted", ln == "abort" and not complete)
        stats.label("skipping", ln == "skip" and not complete)
        stats.label("pipelined", n > 1 and not inner_gap)
        stats.label("spaced", n > 1 and inner_gap)
        stats.label("simultaneous_rw", mode == "rw")
        stats.label("read_of_write_only", "r" in mode and "r" not in r["acc"])
        stats.label("write_to_ro", "w" in mode and "w" not in r["acc"])
        if complete and "r" in mode and "r" in r["acc"] and r["w"] > lay["dw"]:
            stats.label("complete_multichunk_read")
        if complete and "w" in mode and "w" in r["acc"]:
            if r["w"] > lay["dw"]:
                stats.label("complete_multichunk_write")
            if r["pad"] or n > max(1, -(-r["w"] // lay["dw"])):
                stats.label("complete_padded_write")
                stats.label("last_is_padding")


def check(spec, stats):
    if sim.set_pre(spec):
        stats.label("pre_elaborated")
    lay, stim = spec["lay"], spec["stim"]
    aw, plan = gens.plan_csr_layout(lay)
    muxsim.layout_labels(lay, plan, stats)
    res, facts = muxsim.run_case(lay, stim, lay.get("ov"), stats, PROP, True, False)
    if res == "refused":
        stats.label("refused_layout")
        res, facts = muxsim.run_case(lay, stim, None, stats, PROP, True, False)
        if res == "refused":
            raise Violation("C04/refused-with-unlimited-sharing", "layout refused with shadow_overlaps=None")
    elif lay.get("ov") is not None:
        stats.label("finite_overlaps_ok")
    stim_labels(stim, facts, lay, stats)
    stats.nontrivial = len(lay["regs"]) >= 2 and stats.has("complete_multichunk_read")
