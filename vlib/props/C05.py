"""C05 — CSR multiplexer writes are atomic and reach exactly the addressed register."""
# amaranth: UnusedElaboratable=no
from hypothesis import strategies as st

from vlib import gens, muxsim, sim
from vlib.csrmodel import conforming_stimulus, arbitrary_stimulus
from vlib.common import Violation
from vlib.props.C04 import stim_labels

PROP = "C05"
RULE = ("Same layout/stimulus space as C04. Every cycle: element.w_stb of every writable register "
        "vs. the model (all stimuli); element.w_data at the strobe on the bits of the chunks written "
        "in that transaction (conforming stimuli). Sharing-limit differential: every conforming case "
        "is simulated under its own sharing limit and under a second, different one; both must match "
        "the model (identical observable behaviour). Non-trivial = a multi-chunk or padded writable "
        "register written completely with >= 1 other writable register present. Distinct = canonical JSON.")
BUDGET = {"quick": (16, 400), "thorough": (16, 6000)}
ESSENTIAL = ["beyond_13_address_bits", "high_base_address", "unaligned", "padded", "multi_chunk", "shared_chunk", "stim:conf", "stim:arb", "aborted",
             "last_is_padding", "write_to_ro", "unmapped_access", "differential"]
ASSUMPTIONS = [
    "w_data bits of chunks not written in the current transaction are don't-care",
    "layouts the multiplexer deliberately refuses for a finite sharing limit are counted as refused for that limit only",
]


@st.composite
def _spec(draw, tier):
    lay = draw(gens.csr_layout(max_regs=6))
    stim = draw(gens.weighted((2, conforming_stimulus()), (1, arbitrary_stimulus())))
    ov2 = draw(st.sampled_from([None, 0, 1, 2, 3]))
    return {"lay": lay, "stim": stim, "ov2": ov2}


def strategy(tier):
    return gens.with_pre(_spec(tier))


def check(spec, stats):
    if sim.set_pre(spec):
        stats.label("pre_elaborated")
    lay, stim = spec["lay"], spec["stim"]
    aw, plan = gens.plan_csr_layout(lay)
    muxsim.layout_labels(lay, plan, stats)
    ovs = [lay.get("ov")]
    if spec["ov2"] != lay.get("ov"):
        ovs.append(spec["ov2"])
    if None not in ovs and len(ovs) < 2:
        ovs.append(None)
    done = 0
    facts = []
    for ov in ovs:
        res, facts = muxsim.run_case(lay, stim, ov, stats, PROP, False, True)
        if res == "refused":
            stats.label("refused_layout")
            if ov is None:
                raise Violation("C05/refused-with-unlimited-sharing", "layout refused with shadow_overlaps=None")
        else:
            done += 1
    if done >= 2:
        stats.label("differential")
    stim_labels(stim, facts, lay, stats)
    nwritable = sum("w" in r["acc"] for r in lay["regs"])
    stats.nontrivial = nwritable >= 2 and (stats.has("complete_multichunk_write") or stats.has("complete_padded_write"))
