"""C06 — CSR decoder routes each access to exactly one subordinate, transparently."""
# amaranth: UnusedElaboratable=no
from hypothesis import strategies as st

from amaranth import Cat, Value, Const

from amaranth_soc import csr
from amaranth_soc.memory import MemoryMap

from vlib import gens, sim
from vlib.csrmodel import MuxModel, Reg, hval, flatten, conforming_stimulus
from vlib.common import Violation, deliberate_refusal

RULE = ("Part A: a csr.Decoder over 0-5 plain subordinate interfaces (sizes 2..32 addresses, any "
        "data width, decoder alignment 0-3, implicit / align_to / explicit slot placement, "
        "named/anonymous); every decoder address (all of them when <= 512 addresses, else window "
        "boundaries +-1 and a sample) x {idle, r, w, r+w} with random write data, subordinates "
        "played by the testbench (only the one read in the previous cycle returns data). Oracle from "
        "windows(): selected = window whose own span contains the address. Part B: a tree of "
        "decoders (depth <= 3) over multiplexers with mock registers vs ONE flat multiplexer holding "
        "clones of the registers at the addresses root.memory_map.all_resources() reports, same "
        "conforming stimulus, compared cycle by cycle with each other and the reference model. "
        "Non-trivial: A: >= 2 subordinates and an unassigned address; B: depth >= 2 and >= 3 "
        "registers. Distinct = canonical JSON.")
BUDGET = {"quick": (16, 200), "thorough": (16, 4000)}
ESSENTIAL = ["part:A", "part:B", "unassigned_address", "alignment_padding_address", "named", "anonymous",
             "explicit_slot", "refused_add_ghost", "readd_refused", "decoder_beyond_32_address_bits", "subordinates>=6", "B:depth>=2", "full_width_sub", "add_order_differs_from_address_order"]
ASSUMPTIONS = [
    "subordinates obey the CSR bus protocol: r_data is zero except in the cycle after their own r_stb",
    "part B uses shadow_overlaps=None everywhere (C05 covers sharing limits)",
]


@st.composite
def _tree(draw, dw, depth):
    n = draw(st.integers(1, 3))
    subs = []
    for _ in range(n):
        if depth > 0 and draw(st.integers(0, 2)) == 0:
            node = draw(_tree(dw, depth - 1))
        else:
            node = {"type": "mux", "lay": draw(gens.csr_layout(max_regs=3, dws=(dw,), overlaps=False))}
        subs.append({"node": node, "named": draw(st.booleans()),
                     "mode": draw(st.sampled_from(["imp", "imp", "align", "slot"])),
                     "gap": draw(st.integers(0, 2)), "k": draw(st.integers(0, 4)), "aw": 1,
                     "pk": draw(st.integers(0, 9))})
    return {"type": "dec", "dw": dw, "al": draw(st.sampled_from([0, 0, 1, 2, 3])), "subs": subs,
            "extra_aw": draw(st.integers(0, 1)), "squeeze": False, "shuffle": draw(st.integers(0, 2)) == 0,
            "mid_elab": draw(st.sampled_from([None, None, None, 0, 1])),
            "readd": [draw(st.integers(0, 2))] if draw(st.integers(0, 5)) == 0 else []}


@st.composite
def _spec(draw, tier):
    if draw(st.integers(0, 2)) > 0:
        cfg = draw(gens.csr_decoder_config(max_subs=5, max_sub_aw=5))
        cfg["squeeze"] = False
        return {"part": "A", "cfg": cfg, "dseed": draw(st.integers(0, 1 << 30))}
    dw = draw(st.sampled_from([1, 3, 4, 8, 8, 16]))
    return {"part": "B", "tree": draw(_tree(dw, draw(st.sampled_from([1, 2, 2])))),
            "stim": draw(conforming_stimulus(max_txn=14))}


def strategy(tier):
    return gens.with_pre(_spec(tier))


# ------------------------------------------------------------------------------------ part A

def _check_a(spec, stats):
    cfg, seed = spec["cfg"], spec["dseed"]
    stats.label("part:A")
    dec, ifaces, plan = gens.build_csr_decoder(cfg)
    mm = dec.bus.memory_map
    aw, dw = dec.bus.addr_width, cfg["dw"]
    stats.label("add_after_elaboration", getattr(dec, "mid_elaborated", False) and cfg["mid_elab"] < len(ifaces) - 1)
    stats.label("readd_refused", getattr(dec, "readd_refused", False))
    wins = []       # (iface index, start, own_end, reserved_end)
    for wmap, name, (ws, we, ratio) in mm.windows():
        idx = [i for i, f in enumerate(ifaces) if f.memory_map is wmap]
        if len(idx) != 1 or ratio != 1:
            raise Violation("C06/windows-report", f"window {name} -> interfaces {idx}, ratio {ratio}")
        wins.append((idx[0], ws, ws + (1 << ifaces[idx[0]].addr_width), we))
        stats.label("named" if name is not None else "anonymous")
    if sorted(w[1:4:2] for w in wins) != sorted(plan):
        raise Violation("C06/placement", f"windows at {[w[1:4:2] for w in wins]}, arithmetic says {plan}")
    if [w[0] for w in wins] != list(range(len(wins))):
        stats.label("add_order_differs_from_address_order")
    for s in cfg["subs"]:
        stats.label("explicit_slot", s["mode"] == "slot" or bool(cfg.get("shuffle")))
    stats.label("full_width_sub", any(f.addr_width == aw for f in ifaces))
    n = len(ifaces)
    stats.label("subordinates>=6", n >= 6)
    size = 1 << aw
    stats.label("decoder_beyond_32_address_bits", aw > 32)
    if size <= 512:
        addrs = list(range(size))
    else:
        pts = set()
        for _, s, oe, re in wins:
            pts.update(x for x in (s - 1, s, s + 1, oe - 1, oe, oe + 1, re - 1, re) if 0 <= x < size)
        pts.update([0, size - 1])
        pts.update(hval(seed, "addr", k, aw) for k in range(300))
        for _, s, oe, re in wins:
            pts.update(s + hval(seed, "in", k, 8) % (oe - s) for k in range(20))
        addrs = sorted(pts)
    schedule = []
    for a in addrs:
        combos = [(0, 0), (1, 0), (0, 1), (1, 1)] if size <= 512 else [((hval(seed, "c", a, 2) >> 1) & 1, hval(seed, "c", a, 2) & 1)]
        for c in combos:
            schedule.append((a, c[0], c[1]))
    # interleave a pseudo-random permutation so that "previous cycle" pairs vary
    order = sorted(range(len(schedule)), key=lambda k: hval(seed, "perm", k, 32))
    schedule = [schedule[k] for k in order]

    def select(a):
        hit = [w for w in wins if w[1] <= a < w[2]]
        if len(hit) > 1:
            raise Violation("C06/windows-overlap", f"address {a:#x} in several windows")
        return hit[0] if hit else None

    top = sim.wrap(dec)
    sub_stb = Cat(*[Cat(f.r_stb, f.w_stb) for f in ifaces])
    prev_read = [None]
    bus = dec.bus

    async def tb(ctx):
        for t, (a, r, w) in enumerate(schedule):
            wd = hval(seed, "wd", t, dw)
            ctx.set(bus.addr, a); ctx.set(bus.r_stb, r); ctx.set(bus.w_stb, w); ctx.set(bus.w_data, wd)
            exp_rdata = 0
            for i, f in enumerate(ifaces):
                v = 0
                if prev_read[0] == i:
                    v = hval(seed, "rd", t, dw) | 1
                    exp_rdata = v
                ctx.set(f.r_data, v)
            for gi, gh in enumerate(dec.ghosts):
                ctx.set(gh.r_data, hval(seed, f"gh{gi}", t, dw) | 1)   # not a subordinate: must not matter
                stats.label("refused_add_ghost")
            sel = select(a)
            where = f"cycle {t} addr={a:#x} r_stb={r} w_stb={w} (windows {[(i, s, oe) for i, s, oe, _ in wins]})"
            if sel is None:
                stats.label("unassigned_address")
                if any(wn[2] <= a < wn[3] for wn in wins):
                    stats.label("alignment_padding_address")
            got = ctx.get(sub_stb) if n else 0
            for i, f in enumerate(ifaces):
                gr, gw = (got >> (2 * i)) & 1, (got >> (2 * i + 1)) & 1
                er, ew = (r, w) if sel is not None and sel[0] == i else (0, 0)
                if (gr, gw) != (er, ew):
                    raise Violation("C06/routing", f"{where}: subordinate {i} sees r_stb={gr} w_stb={gw}, expected {er},{ew}")
                if er or ew:
                    ga = ctx.get(f.addr)
                    if ga != a - sel[1]:
                        raise Violation("C06/sub-addr", f"{where}: subordinate {i} addr={ga:#x}, expected offset {a - sel[1]:#x}")
                    if ew and ctx.get(f.w_data) != wd:
                        raise Violation("C06/sub-w_data", f"{where}: subordinate {i} w_data={ctx.get(f.w_data):#x}, bus {wd:#x}")
            g = ctx.get(bus.r_data)
            if g != exp_rdata:
                raise Violation("C06/r_data", f"{where}: bus.r_data={g:#x}, expected {exp_rdata:#x} (subordinate "
                                f"read in the previous cycle: {prev_read[0]})")
            prev_read[0] = sel[0] if (sel is not None and r) else None
            await ctx.tick()

    sim.simulate(top, tb)
    stats.add("simulated_cycles", len(schedule))
    stats.nontrivial = n >= 2 and stats.has("unassigned_address")


# ------------------------------------------------------------------------------------ part B

def _build_tree(node, path, leaves):
    """-> (interface, depth). Appends (reg, lay_reg) to ``leaves`` for every mock register."""
    if node["type"] == "mux":
        mux, regs = gens.build_csr_mux(node["lay"], None, name_prefix="r" + "x".join(str(x) for x in path) + "y")
        for (reg, s, e), r in zip(regs, node["lay"]["regs"]):
            leaves.append((reg, r))
        return mux.bus, 0, [mux]
    subs, depth, comps = [], 0, []
    for i, s in enumerate(node["subs"]):
        iface, d, c = _build_tree(s["node"], path + (i,), leaves)
        subs.append(iface)
        depth = max(depth, d + 1)
        comps += c
    dec, _, _ = gens.build_csr_decoder(node, ifaces=subs, prefix="w" + "x".join(str(x) for x in path) + "y")
    return dec.bus, depth, comps + [dec]


def _check_b(spec, stats):
    stats.label("part:B")
    leaves = []
    root_bus, depth, comps = _build_tree(spec["tree"], (), leaves)
    dw = spec["tree"]["dw"]
    rmap = root_bus.memory_map
    infos = list(rmap.all_resources())
    by_id = {id(reg): r for reg, r in leaves}
    if len(infos) != len(leaves):
        raise Violation("C06/B/all_resources-count", f"{len(infos)} resources reported, {len(leaves)} registers built")
    flat_map = MemoryMap(addr_width=rmap.addr_width, data_width=dw)
    pairs = []
    for k, info in enumerate(infos):
        r = by_id[id(info.resource)]
        clone = gens.MockReg(r["w"], r["acc"])
        flat_map.add_resource(clone, name=(f"c{k}",), addr=info.start, size=info.end - info.start)
        pairs.append((info.resource, clone, Reg(info.start, info.end, r["w"], r["acc"])))
    flat = csr.Multiplexer(flat_map)
    regs = [p[2] for p in pairs]
    cycles, facts = flatten(spec["stim"], regs, rmap.addr_width, dw)
    model = MuxModel(dw, regs)
    seed = spec["stim"]["dseed"]
    top = sim.wrap(*comps, flat)
    fbus = flat.bus
    stats.label(f"B:depth>={min(depth, 2)}")

    def strobes(which):
        return Cat(*[Cat(p[which].element.r_stb if p[2].readable else Const(0, 1),
                         p[which].element.w_stb if p[2].writable else Const(0, 1)) for p in pairs])
    t_stb, f_stb = strobes(0), strobes(1)

    async def tb(ctx):
        for t, (addr, r_stb, w_stb, w_data, txn, note) in enumerate(cycles):
            for b in (root_bus, fbus):
                ctx.set(b.addr, addr); ctx.set(b.r_stb, r_stb); ctx.set(b.w_stb, w_stb); ctx.set(b.w_data, w_data)
            values = []
            for i, (treg, creg, r) in enumerate(pairs):
                v = hval(seed, f"v{i}", t, r.width)
                values.append(v)
                if r.readable:
                    ctx.set(treg.element.r_data, v)
                    ctx.set(creg.element.r_data, v)
            exp = model.step(addr, r_stb, w_stb, w_data, values, txn)
            where = f"cycle {t} ({note}) addr={addr:#x} r_stb={r_stb} w_stb={w_stb}"
            gt, gf = ctx.get(root_bus.r_data), ctx.get(fbus.r_data)
            if gt != gf:
                raise Violation("C06/B/r_data-differs", f"{where}: tree r_data={gt:#x}, flat multiplexer {gf:#x}")
            if exp.r_data_known and gt != exp.r_data:
                raise Violation("C06/B/r_data-model", f"{where}: tree r_data={gt:#x}, model {exp.r_data:#x}")
            st_, sf = ctx.get(t_stb), ctx.get(f_stb)
            if st_ != sf:
                raise Violation("C06/B/strobes-differ", f"{where}: register strobes tree={st_:#b} flat={sf:#b} "
                                f"(registers at {[(r.start, r.end) for r in regs]})")
            for i, (treg, creg, r) in enumerate(pairs):
                er, ew = int(exp.r_stb[i]), int(exp.w_stb[i])
                if ((st_ >> (2 * i)) & 1, (st_ >> (2 * i + 1)) & 1) != (er, ew):
                    raise Violation("C06/B/strobes-model", f"{where}: register {i} [{r.start},{r.end}) strobes "
                                    f"{(st_ >> (2 * i)) & 3:#b}, model r={er} w={ew}")
                if ew and r.width:
                    wt = ctx.get(Value.cast(treg.element.w_data))
                    wf = ctx.get(Value.cast(creg.element.w_data))
                    if (wt ^ wf) & exp.w_mask[i] or (wt ^ exp.w_data[i]) & exp.w_mask[i]:
                        raise Violation("C06/B/w_data", f"{where}: register {i} w_data tree={wt:#x} flat={wf:#x} "
                                        f"model={exp.w_data[i]:#x} mask={exp.w_mask[i]:#x}")
            await ctx.tick()

    sim.simulate(top, tb)
    stats.add("simulated_cycles", len(cycles))
    stats.nontrivial = depth >= 2 and len(pairs) >= 3


def check(spec, stats):
    if sim.set_pre(spec):
        stats.label("pre_elaborated")
    if spec["part"] == "A":
        _check_a(spec, stats)
    else:
        _check_b(spec, stats)
