"""C07 — Wishbone decoder selects one subordinate and relays only its responses."""
# amaranth: UnusedElaboratable=no
from hypothesis import strategies as st

from amaranth import Cat, Value, Const

from amaranth_soc import wishbone
from amaranth_soc.memory import MemoryMap

from vlib import gens, sim
from vlib.csrmodel import hval
from vlib.common import Violation

RULE = ("wishbone.Decoder geometries (data width 8-64, granularity <= data width, address width sized "
        "to the windows incl. 0, any feature subset, alignment 0-2) with 0-5 subordinates: dense "
        "windows between buses of equal granularity and sparse windows covering >= 1 decoder word, "
        "any feature subsets (err/rty/stall within the decoder's, else refused), add order != "
        "address order, named/anonymous, implicit/align_to/explicit. For EVERY decoder address x 3 "
        "random request vectors (cyc, stb, we, sel, dat_w, lock, cti, bte) the selected subordinate "
        "drives arbitrary ack/err/rty/stall/dat_r, the others keep response lines low and drive "
        "arbitrary dat_r. Oracle from windows(): selected = window whose own span contains adr; "
        "request fan-out, defaults for missing optional signals, response fan-in. Non-trivial = >= 2 "
        "subordinates with different feature sets and an unassigned address. Distinct = canonical JSON.")
BUDGET = {"quick": (16, 250), "thorough": (16, 5000)}
ESSENTIAL = ["sparse", "dense", "unassigned_address", "aw0", "granularity<dw", "default_lock", "default_cti",
             "default_bte", "sub_lacks_err", "sub_has_err", "shuffled", "stall", "refused_add_ghost", "readd_refused", "decoder_beyond_32_address_bits", "subordinates>=6"]
ASSUMPTIONS = [
    "subordinates respond (ack/err/rty/stall) only while selected, as Wishbone requires; their dat_r is arbitrary",
    "dense windows onto a finer-granularity subordinate and sparse windows narrower than one decoder word are excluded by construction (open known findings K1/K2, probed by pinned cases)",
    "for sparse windows only the selection is checked, not the address offset / select mapping (as the property states)",
]
OPT_IN = ("err", "rty", "stall")


@st.composite
def _spec(draw, tier):
    cfg = draw(gens.wb_decoder_config(max_subs=5, max_sub_aw=4))
    cfg["squeeze"] = False
    # keep subordinate outputs within the decoder's so that add() accepts them
    for s in cfg["subs"]:
        s["feat"] = [f for f in s["feat"] if f not in OPT_IN or f in cfg["feat"]]
    return {"cfg": cfg, "dseed": draw(st.integers(0, 1 << 30)), "vectors": 3 if tier == "quick" else 5}


def strategy(tier):
    return gens.with_pre(_spec(tier))


CTI_VALUES = [0b000, 0b001, 0b010, 0b111]


def check(spec, stats):
    if sim.set_pre(spec):
        stats.label("pre_elaborated")
    if spec.get("known"):
        return _check_known(spec, stats)
    cfg, seed = spec["cfg"], spec["dseed"]
    dec, ifaces, plan = gens.build_wb_decoder(cfg)
    bus = dec.bus
    aw, dw, g = bus.addr_width, cfg["dw"], cfg["g"]
    stats.label("add_after_elaboration", getattr(dec, "mid_elaborated", False) and cfg["mid_elab"] < len(ifaces) - 1)
    stats.label("readd_refused", getattr(dec, "readd_refused", False))
    gbits = (dw // g).bit_length() - 1
    nsel = dw // g
    mm = bus.memory_map
    wins = []
    for wmap, name, (ws, we, ratio) in mm.windows():
        idx = [i for i, f in enumerate(ifaces) if f.memory_map is wmap or getattr(dec, "aliases", {}).get(id(wmap)) == i]
        if len(idx) != 1 or ratio != 1:
            raise Violation("C07/windows-report", f"window {name}: interfaces {idx}, ratio {ratio}")
        i = idx[0]
        wins.append((i, ws, ws + (1 << wmap.addr_width), we))
    if [w[0] for w in wins] != list(range(len(wins))):
        stats.label("shuffled")
    stats.label("subordinate_behind_two_windows", bool(getattr(dec, "aliases", {})))
    feat = set(cfg["feat"])
    stats.label("aw0", aw == 0)
    stats.label("granularity<dw", g < dw)
    stats.label("stall", "stall" in feat)
    for s in cfg["subs"]:
        stats.label("sparse" if s["sparse"] else "dense")
        sf = set(s["feat"])
        stats.label("default_lock", "lock" in sf and "lock" not in feat)
        stats.label("default_cti", "cti" in sf and "cti" not in feat)
        stats.label("default_bte", "bte" in sf and "bte" not in feat)
        stats.label("sub_lacks_err", "err" in feat and "err" not in sf)
        stats.label("sub_has_err", "err" in sf)
    n = len(ifaces)
    stats.label("subordinates>=6", n >= 6)
    top = sim.wrap(dec)
    cycs = Cat(*[f.cyc for f in ifaces]) if n else None

    def select(adr):
        ga = adr << gbits
        hit = [w for w in wins if w[1] <= ga < w[2]]
        if len(hit) > 1:
            raise Violation("C07/windows-overlap", f"word {adr:#x} in several windows")
        return hit[0] if hit else None

    def has(f, name):
        return hasattr(f, name)

    if aw <= 10:
        sweep = range(1 << aw)
    else:
        # huge decoders: window boundaries +-1 (in words) and a sample
        pts = {0, (1 << aw) - 1}
        for _, s_, oe, re in wins:
            for x in (s_ >> gbits, oe >> gbits, re >> gbits):
                pts.update(y for y in (x - 1, x, x + 1) if 0 <= y < (1 << aw))
            pts.update((s_ >> gbits) + hval(seed, "in", k, 8) % max(1, (oe - s_) >> gbits) for k in range(20))
        pts.update(hval(seed, "addr", k, aw) for k in range(200))
        sweep = sorted(pts)
        stats.label("decoder_beyond_32_address_bits", aw > 32)

    async def tb(ctx):
        t = 0
        for adr in sweep:
            sel_w = select(adr)
            for v in range(spec["vectors"]):
                t += 1
                cyc = hval(seed, "cyc", t, 2) != 0
                stb = hval(seed, "stb", t, 2) != 0
                we = hval(seed, "we", t, 1)
                sel = hval(seed, "sel", t, nsel)
                dat_w = hval(seed, "dw", t, dw)
                lock = hval(seed, "lock", t, 1)
                cti = CTI_VALUES[hval(seed, "cti", t, 2)]
                bte = hval(seed, "bte", t, 2)
                if aw:
                    ctx.set(bus.adr, adr)
                ctx.set(bus.cyc, cyc); ctx.set(bus.stb, stb); ctx.set(bus.we, we)
                ctx.set(bus.sel, sel); ctx.set(bus.dat_w, dat_w)
                if "lock" in feat:
                    ctx.set(bus.lock, lock)
                if "cti" in feat:
                    ctx.set(Value.cast(bus.cti), cti)
                if "bte" in feat:
                    ctx.set(Value.cast(bus.bte), bte)
                for gi, gh in enumerate(dec.ghosts):      # refused subordinates: must not matter
                    ctx.set(gh.ack, 1); ctx.set(gh.dat_r, hval(seed, f"gh{gi}", t, gh.data_width) | 1)
                    for k in ("err", "rty", "stall"):
                        if hasattr(gh, k):
                            ctx.set(getattr(gh, k), 1)
                    stats.label("refused_add_ghost")
                resp = {}
                for i, f in enumerate(ifaces):
                    selected = sel_w is not None and sel_w[0] == i
                    r = {"dat_r": hval(seed, f"dr{i}", t, f.data_width)}
                    for k in ("ack", "err", "rty", "stall"):
                        if k == "ack" or has(f, k):
                            r[k] = hval(seed, f"{k}{i}", t, 1) if selected else 0
                            ctx.set(getattr(f, k), r[k])
                    ctx.set(f.dat_r, r["dat_r"])
                    resp[i] = r
                where = (f"adr={adr:#x} cyc={int(cyc)} stb={int(stb)} we={we} sel={sel:#b} windows "
                         f"{[(i, s, oe) for i, s, oe, _ in wins]} (granule addresses)")
                if sel_w is None:
                    stats.label("unassigned_address")
                # --- request side
                gc = ctx.get(cycs) if n else 0
                for i, f in enumerate(ifaces):
                    selected = sel_w is not None and sel_w[0] == i
                    ec = int(cyc) if selected else 0
                    if (gc >> i) & 1 != ec:
                        raise Violation("C07/cyc-routing", f"{where}: subordinate {i} cyc={(gc >> i) & 1}, expected {ec}")
                    if not selected:
                        continue
                    s = cfg["subs"][i]
                    if (ctx.get(f.stb), ctx.get(f.we), ctx.get(f.dat_w)) != (int(stb), we, dat_w & ((1 << f.data_width) - 1)):
                        raise Violation("C07/request-fanout", f"{where}: subordinate {i} stb/we/dat_w = "
                                        f"{ctx.get(f.stb)},{ctx.get(f.we)},{ctx.get(f.dat_w):#x}")
                    if not s["sparse"]:
                        if f.addr_width:
                            off = (adr - (sel_w[1] >> gbits)) & ((1 << f.addr_width) - 1)
                            if ctx.get(f.adr) != off:
                                raise Violation("C07/sub-adr", f"{where}: subordinate {i} adr={ctx.get(f.adr):#x}, "
                                                f"expected offset {off:#x}")
                        if ctx.get(f.sel) != sel:
                            raise Violation("C07/sub-sel", f"{where}: subordinate {i} sel={ctx.get(f.sel):#b}, expected {sel:#b}")
                    for name, val, default in (("lock", lock, 0), ("cti", cti, 0), ("bte", bte, 0)):
                        if has(f, name):
                            exp = val if name in feat else default
                            got = ctx.get(Value.cast(getattr(f, name)))
                            if got != exp:
                                raise Violation(f"C07/optional-{name}", f"{where}: subordinate {i} {name}={got}, expected {exp} "
                                                f"(decoder {'has' if name in feat else 'lacks'} {name})")
                # --- response side
                r = resp[sel_w[0]] if sel_w is not None else {}
                exp_ack = r.get("ack", 0)
                if ctx.get(bus.ack) != exp_ack:
                    raise Violation("C07/ack", f"{where}: upstream ack={ctx.get(bus.ack)}, selected subordinate drives {exp_ack}")
                for k in OPT_IN:
                    if k in feat:
                        if ctx.get(getattr(bus, k)) != r.get(k, 0):
                            raise Violation(f"C07/{k}", f"{where}: upstream {k}={ctx.get(getattr(bus, k))}, selected "
                                            f"subordinate {sel_w[0] if sel_w else None} drives {r.get(k, 0)} "
                                            f"(responses {resp})")
                exp_dat = r.get("dat_r", 0)
                if ctx.get(bus.dat_r) != exp_dat:
                    raise Violation("C07/dat_r", f"{where}: upstream dat_r={ctx.get(bus.dat_r):#x}, expected {exp_dat:#x}")
                await ctx.tick()
        stats.add("vectors", t)

    sim.simulate(top, tb)
    feats = {tuple(s["feat"]) for s in cfg["subs"]}
    stats.nontrivial = n >= 2 and len(feats) >= 2 and stats.has("unassigned_address")


# ------------------------------------------------------------------------------ known findings

def _check_known(spec, stats):
    """Pinned probes of the two open findings (outside the generated domain)."""
    kind = spec["known"]
    stats.label("known_probe:" + kind)
    if kind == "K1":
        # dense windows onto finer-granularity subordinates: decoder 32/32, subordinates 32/8
        dec = wishbone.Decoder(addr_width=4, data_width=32, granularity=32)
        subs = []
        for i in range(2):
            f = wishbone.Interface(addr_width=2, data_width=32, granularity=8, path=(f"s{i}",))
            f.memory_map = MemoryMap(addr_width=4, data_width=8, alignment=2)
            dec.add(f)
            subs.append(f)
        gran = lambda adr, lane: adr      # decoder map addresses are words here
    else:
        # sparse windows narrower than one decoder word: decoder 32/8, subordinates 8/8 with 2 addresses
        dec = wishbone.Decoder(addr_width=2, data_width=32, granularity=8)
        subs = []
        for i in range(2):
            f = wishbone.Interface(addr_width=1, data_width=8, granularity=8, path=(f"s{i}",))
            f.memory_map = MemoryMap(addr_width=1, data_width=8)
            dec.add(f, sparse=True)
            subs.append(f)
        gran = lambda adr, lane: (adr << 2) + lane
    wins = []
    for wmap, name, (ws, we, ratio) in dec.bus.memory_map.windows():
        i = [k for k, f in enumerate(subs) if f.memory_map is wmap][0]
        wins.append((i, ws, we))
    top = sim.wrap(dec)
    bad = []

    async def tb(ctx):
        for adr in range(1 << dec.bus.addr_width):
            for lane in range(len(dec.bus.sel)):
                ctx.set(dec.bus.adr, adr); ctx.set(dec.bus.cyc, 1); ctx.set(dec.bus.stb, 1)
                ctx.set(dec.bus.sel, 1 << lane)
                ga = gran(adr, lane)
                exp = [i for i, s, e in wins if s <= ga < e]
                got = [i for i, f in enumerate(subs) if ctx.get(f.cyc)]
                if got != exp:
                    bad.append((adr, lane, got, exp))
                elif exp and kind == "K1":
                    i = exp[0]
                    off = adr - [s for k, s, e in wins if k == i][0]
                    if ctx.get(subs[i].adr) != off:
                        bad.append((adr, lane, ("adr", ctx.get(subs[i].adr)), ("adr", off)))
                await ctx.tick()

    sim.simulate(top, tb)
    if bad:
        what = {"K1": "dense-window-onto-finer-granularity", "K2": "sparse-window-narrower-than-a-word"}[kind]
        raise Violation(f"C07/known-domain/{kind}/{what}", f"memory map windows {wins}; (adr, lane, selected, "
                        f"expected by the map): {bad[:6]}")


def pinned():
    return [("K1-dense-finer-granularity", {"known": "K1"}), ("K2-sparse-narrower-than-word", {"known": "K2"})]
