"""C08 — Wishbone arbiter: one owner at a time, isolated, never pre-empted mid-cycle."""
# amaranth: UnusedElaboratable=no
from hypothesis import strategies as st

from vlib import arbsim, gens, sim

PROP = "C08"
RULE = ("Arbiter geometry and feature subset, 1-12 (thorough 16) initiators each with its own granularity (>= the "
        "arbiter's) and feature subset (err/rty forced when the arbiter has them); 30-200 cycles in "
        "which EVERY initiator drives arbitrary cyc/stb/lock/we/adr/dat_w/sel/cti/bte (held for "
        "random spans; lock without stb, cyc without stb, everybody/nobody requesting) and the target "
        "drives arbitrary ack/err/rty/stall/dat_r. Every cycle: the shared bus equals the model "
        "owner's request (select fanned out, defaults for missing optional signals), only the owner "
        "sees ack/err/rty/stall (stall = not ack when the bus has no stall), all others see none and "
        "stall=1; the owner follows the exact next-owner function and is cross-checked by who receives "
        "the acknowledge. Non-trivial = N >= 2, >= 2 ownership changes and a non-owner requesting "
        "while the owner holds the bus. Distinct = canonical JSON.")
BUDGET = {"quick": (16, 300), "thorough": (16, 6000)}
ESSENTIAL = ["refused_add_ghost", "add_after_elaboration", "N>=9", "contended_while_busy", "lock_hold_without_stb", "released_by_dropping_stb", "ack_while_contended",
             "arbiter_has_lock", "arbiter_lacks_lock", "mixed_granularity", "intermediate_granularity",
             "owner_lacks_optional", "no_stall_on_bus_compat", "N=1", "N=5", "N=6", "mixed_feature_spelling", "same_signal_names"]
ASSUMPTIONS = ["initiators are not assumed to behave; the owner is the model's owner, cross-checked every "
               "acknowledged cycle against the unique initiator that receives ack"]


def strategy(tier):
    return gens.with_pre(st.fixed_dictionaries({"cfg": arbsim.arbiter_config(max_n=12 if tier == "quick" else 16),
                                               "sched": arbsim.schedule_spec()}))


def check(spec, stats):
    if sim.set_pre(spec):
        stats.label("pre_elaborated")
    arbsim.run_schedule(spec["cfg"], spec["sched"], stats, PROP, True, True)
    n = len(spec["cfg"]["intrs"])
    stats.nontrivial = n >= 2 and stats._adds.get("ownership_changes", 0) >= 2 and stats.has("contended_while_busy")
