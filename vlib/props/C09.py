"""C09 — Wishbone arbiter is round-robin fair: no requester can be starved."""
# amaranth: UnusedElaboratable=no
from hypothesis import strategies as st

from vlib import arbsim, gens, sim
from vlib.common import Violation

PROP = "C09"
RULE = ("(a)+(d): random schedules as in C08 (N up to 12, thorough 16); the owner inferred from "
        "acknowledge routing must follow the exact next-owner function on every transition, and a "
        "continuously requesting initiator must be granted within N-1 grants to others. (b) exhaustive "
        "transition table for N = 1..6 with and without LOCK: the real arbiter is driven into every "
        "owner g and every (request vector, owner stb/lock) is applied: N*2^N*(1..4) transitions, "
        "each compared with 'stay if held, else closest requester after g, else g'. (c) fairness on "
        "the EXTRACTED table: for each initiator i the graph of transitions with i requesting and not "
        "granted must have no cycle through a released edge, and at most N-1 owner changes before i is "
        "granted. Non-trivial = a random schedule with N >= 3 and >= 3 ownership changes, or a table. "
        "Distinct = canonical JSON.")
BUDGET = {"quick": (16, 200), "thorough": (16, 5000)}
ESSENTIAL = ["refused_add_ghost", "add_after_elaboration", "N>=9", "table", "N=5", "N=6", "released_by_dropping_stb", "contended_while_busy"]
ASSUMPTIONS = ["liveness is decided through the finite reduction stated in the property (exact next-owner "
               "function + no unfair cycle in the extracted transition graph) for N <= 6 (table) / N <= 8 (schedules)"]


def strategy(tier):
    return gens.with_pre(st.fixed_dictionaries({"cfg": arbsim.arbiter_config(max_n=12 if tier == "quick" else 16, min_n=2),
                                               "sched": arbsim.schedule_spec()}))


def exhaustive(tier):
    specs = [{"table": {"n": n, "lock": lock}} for n in range(1, 7 if tier == "quick" else 8) for lock in (False, True)]
    return [("transition table N=1..%d x {no LOCK, LOCK}" % (6 if tier == "quick" else 7), specs)]


def pinned():
    # an arbiter with more than 256 initiators (owner indices and counts beyond CPython's shared small ints)
    return [("wide-260-lock", {"table": {"n": 260, "lock": True, "owners": [0, 127, 255, 256, 257, 259], "offsets": [1, 2, 130, -1]}})]


def _check_table(n, with_lock, stats, owners=None, offsets=None):
    if owners is not None:
        try:
            table = arbsim.transition_samples(n, with_lock, owners, offsets)
        except RecursionError:
            # an arbiter this wide cannot be handed to the simulator (expression depth): whether it
            # should is not a question of fairness - no verdict from this probe
            stats.label("wide_arbiter_not_simulable")
            stats.nontrivial = True
            return
        stats.label("table_wide")
        for (g, R, stb, lock, ack), g2 in sorted(table.items()):
            req = [(R >> i) & 1 for i in range(n)]
            held = bool(req[g]) and (bool(stb or lock) if with_lock else True)
            exp = arbsim.next_owner(g, req, held, n)
            if g2 != exp:
                raise Violation("C09/table/next-owner", f"N={n} LOCK={with_lock}: owner {g}, requesting {[i for i in range(n) if req[i]]}, "
                                f"owner stb={stb} lock={lock} (held={held}) -> next owner {g2}, round robin says {exp}")
        stats.add("table_transitions", len(table))
        stats.nontrivial = True
        return
    table = arbsim.transition_table(n, with_lock)
    stats.label("table")
    stats.add("table_transitions", len(table))
    # (b) exact next-owner function
    for (g, R, stb, lock, ack), g2 in sorted(table.items()):
        req = [(R >> i) & 1 for i in range(n)]
        held = bool(req[g]) and (bool(stb or lock) if with_lock else True)
        exp = arbsim.next_owner(g, req, held, n)
        if g2 != exp:
            raise Violation("C09/table/next-owner", f"N={n} LOCK={with_lock}: owner {g}, requests {req}, owner stb={stb} "
                            f"lock={lock} target ack={ack} (held={held}) -> next owner {g2}, round robin says {exp}")
    # (c) fairness on the extracted table, per initiator i
    for i in range(n):
        edges = {}      # g -> set of (g2, released)
        for (g, R, stb, lock, ack), g2 in table.items():
            if not (R >> i) & 1 or g == i or g2 == i:
                continue
            req_g = (R >> g) & 1
            held = bool(req_g) and (bool(stb or lock) if with_lock else True)
            edges.setdefault(g, set()).add((g2, not held))
        # reachability
        def reach(a):
            seen, todo = set(), [a]
            while todo:
                x = todo.pop()
                for y, _ in edges.get(x, ()):
                    if y not in seen:
                        seen.add(y); todo.append(y)
            return seen
        for g, outs in edges.items():
            for g2, released in outs:
                if released and (g2 == g or g in reach(g2)):
                    raise Violation("C09/table/starvation-cycle", f"N={n} LOCK={with_lock}: initiator {i} can request forever "
                                    f"while ownership cycles through {g}->{g2} with the bus released")
        # longest chain of owner changes (released edges that change the owner) before i is granted
        change = {g: {g2 for g2, rel in outs if rel and g2 != g} for g, outs in edges.items()}
        memo = {}

        def longest(g, stack=()):
            if g in memo:
                return memo[g]
            best = 0
            for g2 in change.get(g, ()):
                best = max(best, 1 + longest(g2, stack + (g,)))
            memo[g] = best
            return best
        for g in range(n):
            if g != i and longest(g) + 1 > n - 1 and n > 1:
                raise Violation("C09/table/bounded-wait", f"N={n} LOCK={with_lock}: initiator {i} may wait for "
                                f"{longest(g) + 1} owner changes starting from owner {g}")
    stats.nontrivial = True


def check(spec, stats):
    if sim.set_pre(spec):
        stats.label("pre_elaborated")
    if "table" in spec:
        return _check_table(spec["table"]["n"], spec["table"]["lock"], stats, spec["table"].get("owners"), spec["table"].get("offsets"))
    arbsim.run_schedule(spec["cfg"], spec["sched"], stats, PROP, False, True)
    n = len(spec["cfg"]["intrs"])
    stats.nontrivial = n >= 3 and stats._adds.get("ownership_changes", 0) >= 3
