"""C10 — Wishbone-to-CSR bridge performs each transfer exactly once, in order, on time."""
# amaranth: UnusedElaboratable=no
from hypothesis import strategies as st

from amaranth import Cat, Value

from amaranth_soc import csr
from amaranth_soc.csr.wishbone import WishboneCSRBridge
from amaranth_soc.memory import MemoryMap

from vlib import gens, sim, wbplan
from vlib.csrmodel import MuxModel, Reg, hval
from vlib.common import Violation, deliberate_refusal

RULE = ("CSR width in {8,16,32,64} x Wishbone width a power-of-two multiple <= 64 (ratio 1..8) x CSR "
        "address width 1-8 (combinations the bridge refuses are counted). Protocol-abiding initiator "
        "schedules: transfers (any address, select all/partial/none/one-hot, read/write) held until "
        "ack, then next transfer immediately / drop stb / drop both; idle gaps, cyc without stb, stb "
        "without cyc. Variant A: the CSR side is a plain interface played by the testbench (r_data "
        "valid one cycle after r_stb, else 0): every cycle's CSR addr/strobes/w_data, ack and read "
        "lanes are compared with the transfer-level oracle (access for granule i at t+i, ack at "
        "t+ratio+1). Variant B: bridge over a real multiplexer with multi-granule mock registers "
        "whose values change every cycle; register strobes, w_data (no later than the ack cycle) and "
        "snapshot reads are compared with the composed oracle. Non-trivial = ratio >= 2, a partial "
        "select and back-to-back transfers. Distinct = canonical JSON.")
BUDGET = {"quick": (16, 400), "thorough": (16, 8000)}
ESSENTIAL = ["variant:A", "variant:B", "ratio1", "ratio2", "ratio4", "ratio8", "partial_select", "select_none",
             "back_to_back", "drop_stb", "cyc_only", "refused_geometry", "upper_half_address", "B:multi_granule_reg", "B:register_above_csr_address_256"]
ASSUMPTIONS = [
    "the Wishbone initiator holds its request stable until it sees ack and is otherwise free (classic cycles)",
    "variant B: read data of a non-first chunk is compared only while that register's snapshot is known to be intact (conservative model)",
]


@st.composite
def _spec(draw, tier):
    csr_dw = draw(st.sampled_from([8, 8, 16, 32, 64]))
    wb_dw = draw(st.sampled_from([w for w in (8, 16, 32, 64) if w >= csr_dw]))
    if draw(st.integers(0, 14)) == 0:
        wb_dw = draw(st.sampled_from([None, 8, 24]))      # default / too narrow / not a power-of-two multiple
    variant = draw(st.sampled_from(["A", "A", "B"]))
    spec = {"variant": variant, "csr_dw": csr_dw, "wb_dw": wb_dw, "named": draw(st.booleans()),
            "items": draw(wbplan.schedule_strategy()), "dseed": draw(st.integers(0, 1 << 30))}
    if variant == "A":
        spec["csr_aw"] = draw(st.one_of(st.integers(1, 8), st.integers(9, 14)))
    else:
        spec["lay"] = draw(gens.csr_layout(max_regs=4, dws=(csr_dw,), overlaps=False, high=True))
        # bridge -> csr.Decoder -> multiplexer: the multiplexer is the decoder's only window and does
        # not fill it (this many further address bits); words above the window belong to nobody
        spec["via_decoder"] = draw(st.sampled_from([0, 0, 0, 1, 2]))
    return spec


def strategy(tier):
    return gens.with_pre(_spec(tier))


def check(spec, stats):
    if sim.set_pre(spec):
        stats.label("pre_elaborated")
    csr_dw, wb_dw = spec["csr_dw"], spec["wb_dw"]
    eff_wb = csr_dw if wb_dw is None else wb_dw
    ratio = eff_wb // csr_dw if eff_wb % csr_dw == 0 else 0
    legal_ratio = ratio in (1, 2, 4, 8) and eff_wb in (8, 16, 32, 64)
    seed = spec["dseed"]
    stats.label("variant:" + spec["variant"])
    regs = built = None
    if spec["variant"] == "A":
        csr_aw = spec["csr_aw"]
        csr_bus = csr.Interface(addr_width=csr_aw, data_width=csr_dw, path=("csr",))
        csr_bus.memory_map = MemoryMap(addr_width=csr_aw, data_width=csr_dw)
        mux = None
    else:
        lay = dict(spec["lay"])
        aw0, _ = gens.plan_csr_layout(lay)
        need = max(0, (max(ratio, 1).bit_length() - 1) - aw0)
        lay["extra_aw"] = lay["extra_aw"] + need
        mux, built = gens.build_csr_mux(lay, None)
        mm = mux.bus.memory_map
        csr_aw = mm.addr_width
        csr_bus = mux.bus
        dec = None
        if spec.get("via_decoder"):
            dec = csr.Decoder(addr_width=csr_aw + spec["via_decoder"], data_width=csr_dw)
            dec.add(mux.bus, addr=0)
            csr_aw += spec["via_decoder"]
            csr_bus = dec.bus
            stats.label("B:through_a_decoder_with_one_window")
        regs = [Reg(s, e, r["w"], r["acc"]) for (reg, s, e), r in zip(built, lay["regs"])]
    legal = legal_ratio and csr_aw >= ratio.bit_length() - 1
    try:
        bridge = WishboneCSRBridge(csr_bus, data_width=wb_dw, name=("bridge",) if spec["named"] else None)
    except Exception as e:
        if legal:
            raise Violation("C10/legal-geometry-refused", f"csr {csr_aw}x{csr_dw}, wb data width {wb_dw}: {type(e).__name__}: {e}")
        if not isinstance(e, (ValueError, TypeError)):
            raise
        stats.label("refused_geometry")
        return
    if not legal:
        raise Violation("C10/illegal-geometry-accepted", f"csr {csr_aw}x{csr_dw}, wb data width {wb_dw} accepted")
    wb = bridge.wb_bus
    if (wb.data_width, wb.granularity, wb.addr_width) != (eff_wb, csr_dw, csr_aw - (ratio.bit_length() - 1)):
        raise Violation("C10/wb-geometry", f"wb bus {wb.addr_width}x{wb.data_width}/{wb.granularity}, expected "
                        f"{csr_aw - (ratio.bit_length() - 1)}x{eff_wb}/{csr_dw}")
    stats.label(f"ratio{ratio}")
    pool = None
    if regs:
        words = sorted({a // ratio for r in regs for a in range(r.start, r.end)})
        pool = words + words + [w for w in (0, (1 << wb.addr_width) - 1, (1 << wb.addr_width) // 2) if 0 <= w < (1 << wb.addr_width)]
        stats.label("B:multi_granule_reg", any(r.width > csr_dw for r in regs))
        stats.label("B:register_above_csr_address_256", any(r.start > 256 for r in regs))
    cycles, transfers = wbplan.flatten(spec["items"], ratio, wb.addr_width, eff_wb, seed, pool)
    for k, tr in enumerate(transfers):
        full = (1 << ratio) - 1
        stats.label("partial_select", ratio > 1 and tr["sel"] not in (0, full))
        stats.label("select_none", tr["sel"] == 0)
        stats.label("back_to_back", tr["then"] == "next" and k + 1 < len(transfers) and transfers[k + 1]["start"] == tr["ack"] + 1)
        stats.label("drop_stb", tr["then"] == "drop_stb")
        stats.label("upper_half_address", wb.addr_width > 0 and tr["adr"] >= (1 << wb.addr_width) // 2)
    stats.label("cyc_only", any(c["cyc"] and not c["stb"] and not c["exp_ack"] for c in cycles))
    g = csr_dw
    top = sim.wrap(bridge, *([mux] if mux else []), *([dec] if mux and dec else []))
    table = {}
    model = MuxModel(csr_dw, regs, conservative=True) if regs else None
    elems = [b[0].element for b in built] if built else []
    pending_rd = [0]
    lanes = {}       # transfer index -> {lane: expected value or None}
    cur = [None]

    async def tb(ctx):
        tr_by_start = {tr["start"]: k for k, tr in enumerate(transfers)}
        for t, c in enumerate(cycles):
            ctx.set(wb.cyc, c["cyc"]); ctx.set(wb.stb, c["stb"]); ctx.set(wb.we, c["we"])
            if wb.addr_width:
                ctx.set(wb.adr, c["adr"])
            ctx.set(wb.sel, c["sel"]); ctx.set(wb.dat_w, c["dat_w"])
            if t in tr_by_start:
                cur[0] = tr_by_start[t]
                lanes[cur[0]] = {}
            where = f"cycle {t} (transfer {cur[0]}: {transfers[cur[0]] if cur[0] is not None else None}) ratio={ratio}"
            exp_csr = c["csr"]
            if mux is None:
                # variant A: play the CSR target
                ctx.set(csr_bus.r_data, pending_rd[0])
                got = (ctx.get(csr_bus.r_stb), ctx.get(csr_bus.w_stb))
                exp = (exp_csr[1], exp_csr[2]) if exp_csr else (0, 0)
                if got != exp:
                    raise Violation("C10/csr-strobes", f"{where}: CSR r_stb,w_stb={got}, expected {exp}")
                if exp_csr:
                    ga = ctx.get(csr_bus.addr)
                    if ga != exp_csr[0]:
                        raise Violation("C10/csr-addr", f"{where}: CSR addr={ga:#x}, expected {exp_csr[0]:#x} "
                                        f"(= wb adr {c['adr']:#x} x {ratio} + granule)")
                    if exp_csr[2] and ctx.get(csr_bus.w_data) != exp_csr[3]:
                        raise Violation("C10/csr-w_data", f"{where}: CSR w_data={ctx.get(csr_bus.w_data):#x}, expected lane {exp_csr[3]:#x}")
                if exp_csr and exp_csr[1]:
                    v = hval(seed, "tbl", exp_csr[0], g) | 1
                    pending_rd[0] = v
                    lanes[cur[0]][t - transfers[cur[0]]["start"]] = v
                else:
                    pending_rd[0] = 0
            else:
                values = []
                for i, r in enumerate(regs):
                    v = hval(seed, f"v{i}", t, r.width)
                    values.append(v)
                    if r.readable:
                        ctx.set(elems[i].r_data, v)
                a, rs, ws, wd = exp_csr if exp_csr else (0, 0, 0, 0)
                e = model.step(a, rs, ws, wd, values, None)
                # the data returned for the granule read in the previous cycle
                if t > 0 and cycles[t - 1]["csr"] and cycles[t - 1]["csr"][1] and cur[0] is not None:
                    lane = (t - 1) - transfers[cur[0]]["start"]
                    if 0 <= lane < ratio:
                        lanes[cur[0]][lane] = e.r_data if e.r_data_known else None
                for i, r in enumerate(regs):
                    if r.readable and bool(ctx.get(elems[i].r_stb)) != e.r_stb[i]:
                        raise Violation("C10/B/r_stb", f"{where}: register {i} [{r.start},{r.end}) r_stb={ctx.get(elems[i].r_stb)}, expected {e.r_stb[i]}")
                    if r.writable:
                        gw = bool(ctx.get(elems[i].w_stb))
                        if gw != e.w_stb[i]:
                            raise Violation("C10/B/w_stb", f"{where}: register {i} [{r.start},{r.end}) w_stb={gw}, expected {e.w_stb[i]}")
                        if gw and r.width:
                            wdat = ctx.get(Value.cast(elems[i].w_data))
                            if (wdat ^ e.w_data[i]) & e.w_mask[i]:
                                raise Violation("C10/B/w_data", f"{where}: register {i} w_data={wdat:#x}, expected "
                                                f"{e.w_data[i]:#x} on mask {e.w_mask[i]:#x}")
            ack = ctx.get(wb.ack)
            if ack != c["exp_ack"]:
                raise Violation("C10/ack-timing", f"{where}: ack={ack}, expected {c['exp_ack']} (ack exactly "
                                f"ratio+1 = {ratio + 1} cycles after the transfer starts, for one cycle)")
            if ack and cur[0] is not None and not transfers[cur[0]]["we"]:
                tr = transfers[cur[0]]
                dat = ctx.get(wb.dat_r)
                for lane in range(ratio):
                    gl = (dat >> (lane * g)) & ((1 << g) - 1)
                    if (tr["sel"] >> lane) & 1:
                        el = lanes[cur[0]].get(lane)
                        if el is not None and gl != el:
                            raise Violation("C10/read-lane", f"{where}: lane {lane} of dat_r={gl:#x}, CSR read data "
                                            f"for granule {lane} was {el:#x}")
            await ctx.tick()

    sim.simulate(top, tb)
    stats.add("simulated_cycles", len(cycles))
    stats.add("transfers", len(transfers))
    stats.nontrivial = ratio >= 2 and stats.has("partial_select") and stats.has("back_to_back")
