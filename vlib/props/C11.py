"""C11 — register fields are packed LSB-first, contiguously, and strobed by access mode."""
# amaranth: UnusedElaboratable=no
from hypothesis import strategies as st

from amaranth import Value, Cat

from amaranth_soc import csr

from vlib import gens, sim, components
from vlib.common import Violation, deliberate_refusal

RULE = ("Field trees (recursive dict/list/Field; shapes unsigned(0-9), signed, Enum, Flag; logic-free "
        "mock actions with access r/w/rw/nc plus the real actions incl. reserved ones) are passed as "
        "dict / list / single Field / class annotations with register access r/w/rw. Oracle: an "
        "independent walk of the input description gives declaration order and bit offsets; "
        "construction must be refused iff some field needs a direction the register lacks; then a "
        "combinational simulation with 6-14 random vectors checks element.r_data composition, each "
        "writable field's slice of element.w_data and strobe fan-out by access mode. Non-trivial = "
        ">= 3 fields, nesting depth >= 2, mixed access, and a zero-width or non-connected field that "
        "is not last. Distinct = canonical JSON.")
BUDGET = {"quick": (16, 250), "thorough": (16, 6000)}
ESSENTIAL = ["via:arg", "via:annot", "via:annot_sub", "refused_access", "accepted", "nc_not_last", "zero_width_field",
             "depth>=2", "root:list", "root:dict", "root:field", "offending_not_last"]
ASSUMPTIONS = [
    "field values are observed at the field ports (port.r_data as driven by the action); action semantics are C12's business",
    "dict keys are unique non-empty strings; trees are non-empty",
]


@st.composite
def _spec(draw, tier):
    tree = draw(gens.field_tree(components.ALL_ACTIONS, enums=True, max_leaves=10))
    acc = draw(st.sampled_from(["r", "w", "rw", "rw", "rw"]))
    via = draw(st.sampled_from(["arg", "arg", "annot", "annot", "annot_sub", "subclass_access", "subclass_access2"]))
    nvec = draw(st.integers(6, 14))
    vec = st.tuples(st.integers(0, (1 << 70) - 1), st.booleans(), st.booleans(), st.integers(0, 1 << 30)).map(list)
    return {"tree": tree, "acc": acc, "via": via, "vectors": draw(st.lists(vec, min_size=nvec, max_size=nvec)),
            # equal sub-descriptions are the same Python object; the whole description was already used
            # for another register before; action classes are trivial user subclasses
            "share": draw(st.booleans()), "reuse": draw(st.sampled_from([0, 0, 0, 1, 2])),
            # annotation-defined registers: other annotations (strings, ints, None, empty collections) sit between the fields
            "junk": draw(st.sampled_from([0, 0, 1, 2, 3])),
            "subclass": draw(st.sampled_from([False, False, False, True]))}


def strategy(tier):
    return gens.with_pre(_spec(tier))


def _depth(t):
    if "a" in t:
        return 0
    kids = [v for _, v in t["d"]] if "d" in t else t["l"]
    return 1 + max(_depth(k) for k in kids)


def _build(spec):
    fields = gens.tree_to_fields(spec["tree"], share=spec.get("share", False), subclass=spec.get("subclass", False))
    for _ in range(spec.get("reuse", 0)):
        _build_from(fields, spec)       # the same description objects describe an earlier register too
    return _build_from(fields, spec)


def _with_junk(x, k, depth=0):
    """Annotations that are not fields (a class may annotate anything) mixed into the description:
    the register is made of the fields alone."""
    from amaranth_soc.csr import Field
    if isinstance(x, Field) or not k:
        return x
    junk = ["note", None, 7, [], {}, ["only", "junk"], {"doc": "text"}]
    if isinstance(x, dict):
        out = {}
        for i, (key, v) in enumerate(x.items()):
            if (i + k + depth) % 2 == 0:
                out[f"_junk{depth}_{i}"] = junk[(i + k) % len(junk)]
            out[key] = _with_junk(v, k, depth + 1)
        if k >= 2:
            out[f"_tail{depth}"] = junk[(k + depth) % len(junk)]
        return out
    out = []
    for i, v in enumerate(x):
        if (i + k + depth) % 2 == 0:
            out.append(junk[(i + k + 1) % len(junk)])
        out.append(_with_junk(v, k, depth + 1))
    if k >= 2:
        out.append(junk[(k + depth + 3) % len(junk)])
    return out


def _build_from(fields, spec):
    via = spec["via"]
    if via in ("annot", "annot_sub") and "d" in spec["tree"]:
        fields = _with_junk(fields, spec.get("junk", 0))
    if via == "subclass_access2":
        # the base class declares another access mode than the subclass that is instantiated
        other = {"r": "rw", "w": "r", "rw": "w"}[spec["acc"]]
        base = type("BaseAcc", (csr.Register,), {}, access=other)
        cls = type("SubAcc", (base,), {}, access=spec["acc"])
        return cls(fields)
    if via == "annot" and "d" in spec["tree"]:
        cls = type("AnnotReg", (csr.Register,), {"__annotations__": dict(fields)})
        return cls(access=spec["acc"])
    if via == "annot_sub" and "d" in spec["tree"]:
        # an annotation-defined base class, instantiated first, then a subclass with its own annotations
        base = type("BaseReg", (csr.Register,), {"__annotations__": {"base_only": csr.Field(gens.MockAction, 3, access="r")}})
        base(access="r")
        cls = type("SubReg", (base,), {"__annotations__": dict(fields)})
        return cls(access=spec["acc"])
    if via == "subclass_access":
        cls = type("AccReg", (csr.Register,), {}, access=spec["acc"])
        return cls(fields)
    return csr.Register(fields, access=spec["acc"])


def check(spec, stats):
    if sim.set_pre(spec):
        stats.label("pre_elaborated")
    tree, acc = spec["tree"], spec["acc"]
    leaves = gens.tree_leaves(tree)
    stats.label("via:" + (spec["via"] if spec["via"] in ("annot", "annot_sub") and "d" in tree else "arg"))
    stats.label("annotations_with_non_field_items", spec["via"] in ("annot", "annot_sub") and "d" in tree and bool(spec.get("junk")))
    stats.label("subclass_redeclares_access", spec["via"] == "subclass_access2")
    stats.label("root:" + ("dict" if "d" in tree else "list" if "l" in tree else "field"))
    need_r, need_w = gens.tree_access_needed(tree)
    must_refuse = (need_r and "r" not in acc) or (need_w and "w" not in acc)
    if must_refuse:
        # is the first offending field followed by another field?
        for i, (_, l) in enumerate(leaves):
            fa = gens.ACTION_ACCESS[l["a"]]
            if (fa in ("r", "rw") and "r" not in acc) or (fa in ("w", "rw") and "w" not in acc):
                stats.label("offending_not_last", i < len(leaves) - 1)
                break
    try:
        reg = _build(spec)
    except Exception as e:
        if not must_refuse:
            if deliberate_refusal(e):
                raise Violation("C11/legal-register-refused", f"access {acc}, fields "
                                f"{[(p, l['a']) for p, l in leaves]}: {e}")
            raise
        if not isinstance(e, (ValueError, TypeError)):
            raise
        stats.label("refused_access")
        return
    if must_refuse:
        raise Violation("C11/access-mismatch-accepted", f"register access {acc!r} accepted fields "
                        f"{[(p, gens.ACTION_ACCESS[l['a']]) for p, l in leaves]}")
    stats.label("accepted")
    # declaration order and offsets from the input description
    exp, off = [], 0
    for path, l in leaves:
        w = gens.shape_width(l["s"])
        exp.append((path, off, w, gens.ACTION_ACCESS[l["a"]], l["a"]))
        off += w
    total = off
    got = list(reg)
    if [tuple(p) for p, _ in got] != [p for p, *_ in exp]:
        raise Violation("C11/field-order", f"iteration order {[tuple(p) for p, _ in got]}, declared {[p for p, *_ in exp]}")
    if reg.element.width != total:
        raise Violation("C11/width", f"element width {reg.element.width}, sum of field widths {total}")
    if reg.element.access.value != acc:
        raise Violation("C11/access", f"element access {reg.element.access}, requested {acc}")
    for i, (path, o, w, fa, a) in enumerate(exp):
        if (w == 0 or fa == "nc") and i < len(exp) - 1 and any(e[2] for e in exp[i + 1:]):
            stats.label("zero_width_field", w == 0)
            stats.label("nc_not_last", fa == "nc" and w > 0)
    stats.label("depth>=2", _depth(tree) >= 2)
    accs = {e[3] for e in exp}
    fields = [f for _, f in got]
    elem = reg.element
    top = sim.wrap(reg)
    readable, writable = "r" in acc, "w" in acc
    r_stbs = Cat(*[f.port.r_stb for f in fields])
    w_stbs = Cat(*[f.port.w_stb for f in fields])
    full = (1 << total) - 1

    async def tb(ctx):
        for t, (wd, rs, ws, seed) in enumerate(spec["vectors"]):
            wd &= full
            if readable:
                ctx.set(elem.r_stb, rs)
            if writable:
                ctx.set(elem.w_stb, ws)
                if total:
                    ctx.set(elem.w_data, wd)
            vals = []
            for k, ((path, o, w, fa, a), f) in enumerate(zip(exp, fields)):
                v = (seed * 2654435761 + k * 40503 + t * 97) >> 3 & ((1 << w) - 1)
                if a.startswith("Mock") and w:
                    ctx.set(Value.cast(f.port.r_data), v)
                elif a == "R" and w:
                    ctx.set(Value.cast(f.r_data), v)
            exp_r = 0
            for (path, o, w, fa, a), f in zip(exp, fields):
                mask = (1 << w) - 1
                pr = ctx.get(Value.cast(f.port.r_data)) & mask if w else 0
                if fa in ("r", "rw"):
                    exp_r |= pr << o
                if fa in ("w", "rw"):
                    pw = ctx.get(Value.cast(f.port.w_data)) & mask if w else 0
                    if pw != (wd >> o) & mask:
                        raise Violation("C11/w_data-slice", f"vector {t}: field {path} at bits [{o},{o + w}) got "
                                        f"w_data={pw:#x}, element.w_data={wd:#x}")
            if readable and total:
                gr = ctx.get(elem.r_data)
                if gr != exp_r:
                    raise Violation("C11/r_data-packing", f"vector {t}: element.r_data={gr:#x}, expected {exp_r:#x} "
                                    f"from fields {[(p, o, w, fa) for p, o, w, fa, _ in exp]}")
            grs, gws = ctx.get(r_stbs), ctx.get(w_stbs)
            for k, (path, o, w, fa, a) in enumerate(exp):
                er = int(bool(rs) and readable and fa in ("r", "rw"))
                ew = int(bool(ws) and writable and fa in ("w", "rw"))
                if (grs >> k) & 1 != er:
                    raise Violation("C11/r_stb-fanout", f"vector {t}: field {path} ({fa}) r_stb={(grs >> k) & 1}, expected {er}")
                if (gws >> k) & 1 != ew:
                    raise Violation("C11/w_stb-fanout", f"vector {t}: field {path} ({fa}) w_stb={(gws >> k) & 1}, expected {ew}")
            await ctx.tick()

    sim.simulate(top, tb)
    stats.add("vectors", len(spec["vectors"]))
    stats.nontrivial = (len(exp) >= 3 and _depth(tree) >= 2 and len(accs) >= 2
                        and (stats.has("zero_width_field") or stats.has("nc_not_last")))
