"""C12 — field actions keep, set and clear storage exactly as documented, for all time."""
# amaranth: UnusedElaboratable=no
import itertools
from hypothesis import strategies as st

from amaranth import Value
from amaranth_soc import csr

from vlib import gens, sim
from vlib.common import Violation

RULE = ("Action in {R,W,RW,RW1C,RW1S,4 reserved}, shape in unsigned(0-9)/signed(1-6)/Enum/Flag/"
        "signed Enum, init value, then 5-60 cycles of arbitrary w_stb/w_data/r_stb/set/clear/r_data "
        "(masks biased to sparse, all-ones and equal-to-state patterns). Every cycle the storage "
        "outputs (data, port.r_data) and pass-through members are compared with step models. "
        "Non-trivial = a storage action of width >= 2 whose history contains a same-cycle set/clear "
        "tie on some bit and a cycle in which some bits change while others keep their value. "
        "Exhaustive part: every (state, w_stb, w_data, hw input) combination for RW/RW1C/RW1S of "
        "width 1..3 (thorough: ..4). Distinct = canonical JSON.")
BUDGET = {"quick": (16, 250), "thorough": (16, 6000)}
ESSENTIAL = ["a:R", "a:W", "a:RW", "a:RW1C", "a:RW1S", "reserved", "shape:enum", "shape:flag",
             "shape:s", "shape:arr", "shape:struct", "width>64", "tie", "partial_update", "init_nonzero"]
ASSUMPTIONS = [
    "signals are driven/read as raw bit patterns (enum-shaped signals through Value.cast)",
    "init values are legal members for enum shapes",
]
STORAGE = ("RW", "RW1C", "RW1S")


def _cycle(w):
    m = (1 << w) - 1
    val = st.one_of(st.integers(0, m), st.sampled_from([0, m, 1, m >> 1, 1 << max(w - 1, 0)]).map(lambda v: v & m))
    return st.tuples(st.booleans(), val, st.booleans(), val, val).map(list)


@st.composite
def _spec(draw, tier):
    leaf = draw(gens.field_leaf(components_actions(), enums=True))
    w = gens.shape_width(leaf["s"])
    n = draw(st.integers(5, 60 if tier == "quick" else 100))
    if draw(st.integers(0, 19)) == 0:
        n = draw(st.integers(300, 600))        # occasionally a long run
    cycles = draw(st.lists(_cycle(w), min_size=n, max_size=n))
    return {"leaf": leaf, "cycles": cycles,
            # the Field object already created this many other actions; the action class is a trivial user subclass
            "nth_create": draw(st.sampled_from([0, 0, 0, 1, 2])), "subclass": draw(st.sampled_from([False, False, True])),
            # the action sits in a register between a signed field below and an unsigned field above and is
            # driven through the register's element port (the bus read of the register must show each
            # field's read value in its own bits)
            "in_reg": draw(st.one_of(st.none(), st.none(), st.fixed_dictionaries(
                {"lo_w": st.integers(1, 5), "hi_w": st.integers(1, 9), "lo_init": st.integers(0, 31), "dseed": st.integers(0, 1 << 20)})))}


def components_actions():
    return ["R", "W", "RW", "RW", "RW1C", "RW1C", "RW1S", "RW1S", "ResRAW0", "ResRAWL", "ResR0WA", "ResR0W0"]


def strategy(tier):
    return gens.with_pre(_spec(tier))


def exhaustive(tier):
    def gen(maxw):
        for a in STORAGE:
            for w in range(1, maxw + 1):
                m = 1 << w
                for state in range(m):
                    for w_stb in (0, 1):
                        for w_data in range(m):
                            for hw in range(m):
                                yield {"leaf": {"a": a, "s": ["u", w], "init": state},
                                       "cycles": [[bool(w_stb), w_data, False, hw, hw], [False, 0, False, 0, 0]]}
    return [(f"all (state,w_stb,w_data,set/clear) for RW/RW1C/RW1S width 1..{3 if tier == 'quick' else 4}",
             gen(3 if tier == "quick" else 4))]


def check(spec, stats):
    if sim.set_pre(spec):
        stats.label("pre_elaborated")
    leaf = spec["leaf"]
    a, s = leaf["a"], leaf["s"]
    w = gens.shape_width(s)
    m = (1 << w) - 1
    stats.label("a:" + a if not a.startswith("Res") else "reserved")
    stats.label("shape:" + s[0])
    stats.label("width>64", w > 64)
    field = gens.make_field(leaf, spec.get("subclass", False))
    for _ in range(spec.get("nth_create", 0)):
        field.create()
    stats.label("field_object_reused", bool(spec.get("nth_create")))
    stats.label("action_subclass", bool(spec.get("subclass")))
    act = field.create()
    init = gens.init_value(s, leaf.get("init") or 0) & m if (a in STORAGE and (leaf.get("init") is not None
                                                                           or s[0] in ("arr", "struct"))) else 0
    if a in STORAGE:
        if init:
            stats.label("init_nonzero")
    inreg = spec.get("in_reg")
    if inreg:
        from amaranth import signed, unsigned
        from amaranth_soc.csr import action as _action
        from vlib.csrmodel import hval
        lo_w, hi_w = inreg["lo_w"], inreg["hi_w"]
        lo_m, hi_m = (1 << lo_w) - 1, (1 << hi_w) - 1
        lo_init = inreg["lo_init"] & lo_m
        lo_signed = lo_init - (1 << lo_w) if lo_init >> (lo_w - 1) else lo_init
        reg = csr.Register({"lo": csr.Field(_action.RW, signed(lo_w), init=lo_signed), "dut": field,
                            "hi": csr.Field(_action.RW, unsigned(hi_w))}, access="rw")
        act = reg.f.dut
        elem = reg.element
        side = [lo_init, 0]
        stats.label("inside_register")
        top = sim.wrap(reg)
    else:
        top = sim.wrap(act)
    port = act.port
    state = [init]

    def rd(x):
        return None

    async def tb(ctx):
        def get(sig):
            return ctx.get(Value.cast(sig)) & m
        for t, (w_stb, w_data, r_stb, hw, rdat) in enumerate(spec["cycles"]):
            w_data &= m; hw &= m; rdat &= m
            where = f"cycle {t} state={state[0]:#x} w_stb={int(w_stb)} w_data={w_data:#x} hw={hw:#x}"
            if inreg:
                lo_wv, hi_wv = hval(inreg["dseed"], "lo", t, lo_w), hval(inreg["dseed"], "hi", t, hi_w)
                ctx.set(elem.w_stb, w_stb)
                ctx.set(elem.r_stb, r_stb)
                ctx.set(elem.w_data, lo_wv | (w_data << lo_w) | (hi_wv << (lo_w + w)))
            else:
                ctx.set(port.w_stb, w_stb)
                ctx.set(port.r_stb, r_stb)
                if w:
                    ctx.set(Value.cast(port.w_data), w_data)
            exp_read = rdat if a == "R" else state[0] if a in STORAGE else 0
            if a == "R":
                if w:
                    ctx.set(Value.cast(act.r_data), rdat)
                if get(port.r_data) != rdat:
                    raise Violation("C12/R/r_data", f"{where}: port.r_data={get(port.r_data):#x}, r_data={rdat:#x}")
                if ctx.get(act.r_stb) != int(r_stb):
                    raise Violation("C12/R/r_stb", f"{where}: r_stb={ctx.get(act.r_stb)} port.r_stb={int(r_stb)}")
            elif a == "W":
                if get(act.w_data) != w_data:
                    raise Violation("C12/W/w_data", f"{where}: w_data={get(act.w_data):#x}")
                if ctx.get(act.w_stb) != int(w_stb):
                    raise Violation("C12/W/w_stb", f"{where}: w_stb={ctx.get(act.w_stb)}")
            elif a in STORAGE:
                if a == "RW1C" and w:
                    ctx.set(Value.cast(act.set), hw)
                if a == "RW1S" and w:
                    ctx.set(Value.cast(act.clear), hw)
                d, r = get(act.data), get(port.r_data)
                if d != state[0] or r != state[0]:
                    raise Violation(f"C12/{a}/storage", f"{where}: data={d:#x} port.r_data={r:#x}, model {state[0]:#x}")
                cur = state[0]
                wr = w_data if w_stb else 0
                if a == "RW":
                    nxt = w_data if w_stb else cur
                elif a == "RW1C":
                    nxt = (cur & ~wr | hw) & m
                    stats.label("tie", bool(wr & hw))
                else:
                    nxt = (cur & ~hw | wr) & m
                    stats.label("tie", bool(wr & hw))
                changed = cur ^ nxt
                if w >= 2 and changed and changed != m:
                    stats.label("partial_update")
                state[0] = nxt
            else:
                if get(port.r_data) != 0:
                    raise Violation("C12/reserved/r_data", f"{where}: port.r_data={get(port.r_data):#x}")
            if inreg:
                want = side[0] | (exp_read << lo_w) | (side[1] << (lo_w + w))
                got_e = ctx.get(elem.r_data)
                if got_e != want:
                    raise Violation("C12/register-read", f"{where}: register reads {got_e:#x}, its fields' read values are "
                                    f"lo={side[0]:#x} ({lo_w} bits, signed) dut={exp_read:#x} ({w} bits) hi={side[1]:#x}: {want:#x}")
                stats.label("negative_signed_field_below", bool(side[0] >> (lo_w - 1)))
                if w_stb:
                    side[0], side[1] = lo_wv, hi_wv
            await ctx.tick()

    sim.simulate(top, tb)
    stats.add("simulated_cycles", len(spec["cycles"]))
    stats.nontrivial = a in STORAGE and w >= 2 and stats.has("partial_update") and (a == "RW" or stats.has("tie"))
