"""C13 — event monitor never loses an event and reports exactly enabled-and-pending."""
# amaranth: UnusedElaboratable=no
from hypothesis import strategies as st

from amaranth import Cat

from amaranth_soc import event

from vlib import sim, gens
from vlib.common import Violation

RULE = ("Two kinds of cases. (a) EventMap call histories: add (sources from a pool, with repeats, "
        "and non-Source objects), index (present/absent/wrong type), sources, size, freeze, add "
        "after freeze; oracle = insertion-ordered list. (b) Monitor simulation: 0-10 sources with a "
        "random trigger mode each, added to the map in a shuffled order with repeats; every cycle "
        "arbitrary source inputs, enable and clear masks; per cycle each source's trg, the pending "
        "mask and the outgoing line are compared with the step model. Non-trivial: (a) a repeat add "
        "followed by the first add of a new source; (b) >= 3 sources of >= 2 modes and a trigger "
        "coinciding with its clear. Distinct = canonical JSON.")
BUDGET = {"quick": (16, 300), "thorough": (16, 8000)}
ESSENTIAL = ["kind:map", "kind:sim", "repeat_then_new", "frozen_add_refused", "trigger_and_clear",
             "mode:level", "mode:rise", "mode:fall", "enable_partial", "index_absent", "sources>=64", "source_in_two_maps"]
ASSUMPTIONS = ["edge modes compare with the previous cycle's input, initially low",
               "the pending mask is read directly from Monitor.pending"]
MODES = ["level", "rise", "fall"]


def _map_spec():
    from vlib.gens import weighted
    op = weighted(
        (8, st.tuples(st.just("add"), st.integers(0, 5)).map(list)),
        (1, st.tuples(st.just("add_bad"), st.sampled_from(["int", "none", "sig"])).map(list)),
        (3, st.tuples(st.just("index"), st.integers(0, 7)).map(list)),
        (1, st.tuples(st.just("index_bad"), st.sampled_from(["int", "none"])).map(list)),
        (1, st.just(["freeze"])),
        (3, st.tuples(st.just("add_other"), st.integers(0, 7)).map(list)),     # the same source added to a second map
        # a Monitor over this map that is refused (bad trigger mode / not a map): must leave the map as it was
        (1, st.tuples(st.just("monitor_bad"), st.sampled_from(["edge", "", 3])).map(list)),
    )
    return st.fixed_dictionaries({"kind": st.just("map"),
                                  "ops": st.lists(op, min_size=4, max_size=25),
                                  # sources are instances of a user subclass with value equality (all equal, same hash)
                                  "eq_sources": st.sampled_from([False, False, True])})


@st.composite
def _sim_spec(draw, tier):
    n = draw(st.integers(0, 10))
    if draw(st.integers(0, 14)) == 0:
        n = draw(st.sampled_from([63, 64, 65, 70, 127, 128, 130, 200, 300]))     # beyond one 64-bit word of events
    modes = [draw(st.sampled_from(MODES)) for _ in range(n)]
    order = draw(st.lists(st.integers(0, max(n - 1, 0)), min_size=0, max_size=2 * n)) if n else []
    m = (1 << n) - 1
    edge_bits = [k for k in (62, 63, 64, 65, 126, 127, 128, 191, 192, 255, 256) if k < n] or [max(n - 1, 0)]
    mask = st.one_of(st.integers(0, m), st.sampled_from([0, m, 1, m >> 1]),
                     st.integers(0, max(n - 1, 0)).map(lambda k: 1 << k),
                     st.sampled_from(edge_bits).map(lambda k: (1 << k) & m))      # one event at a word boundary
    ncyc = draw(st.integers(4, 40 if tier == "quick" else 100)) if n <= 10 else draw(st.integers(8, 24))
    if n <= 10 and draw(st.integers(0, 19)) == 0:
        ncyc = draw(st.integers(300, 600))     # occasionally a long run
    cycles = draw(st.lists(st.tuples(mask, mask, mask).map(list), min_size=ncyc, max_size=ncyc))
    return {"kind": "sim", "modes": modes, "order": order, "trigger": draw(st.sampled_from(MODES)),
            "cycles": cycles,
            # cascaded monitors: the monitor's own outgoing source is one event of a parent monitor
            "cascade": draw(st.sampled_from([None, None, None, 0, 1, 3]))}


def strategy(tier):
    from vlib.gens import weighted
    return gens.with_pre(weighted((1, _map_spec()), (2, _sim_spec(tier))))


class EqSource(event.Source):
    """A user subclass with value semantics: every instance equals every other and hashes alike."""
    def __eq__(self, other):
        return isinstance(other, EqSource)

    def __hash__(self):
        return 13


def _check_map(spec, stats):
    stats.label("kind:map")
    cls = EqSource if spec.get("eq_sources") else event.Source
    stats.label("value_equal_sources", bool(spec.get("eq_sources")))
    pool = [cls(trigger=MODES[i % 3], path=(f"s{i}",)) for i in range(8)]
    emap = event.EventMap()
    other, other_model = event.EventMap(), []
    model = []       # sources in order of first addition
    frozen = False
    last_was_repeat = False
    bad = {"int": 3, "none": None, "sig": object()}

    def verify(where):
        if emap.size != len(model):
            raise Violation("C13/map/size", f"{where}: size={emap.size}, model {len(model)}")
        got = list(emap.sources())
        exp = [(s, i) for i, s in enumerate(model)]
        if len(got) != len(exp) or any(g[0] is not e[0] or g[1] != e[1] for g, e in zip(got, exp)):
            pi = lambda x: [k for k, y in enumerate(pool) if y is x][:1]
            raise Violation("C13/map/sources", f"{where}: sources() = {[(pi(g[0]), g[1]) for g in got]}, "
                            f"model {[(pi(e[0]), e[1]) for e in exp]}")
        for i, s in enumerate(model):
            if emap.index(s) != i:
                raise Violation("C13/map/index", f"{where}: index(source #{[k for k, y in enumerate(pool) if y is s][0]}) = {emap.index(s)}, model {i}")

    for n, op in enumerate(spec["ops"]):
        where = f"op#{n} {op}"
        if op[0] == "add":
            s = pool[op[1]]
            try:
                emap.add(s)
                ok = True
            except ValueError:
                ok = False
            if frozen:
                if ok:
                    raise Violation("C13/map/add-after-freeze", f"{where}: add() accepted on a frozen map")
                stats.label("frozen_add_refused")
            else:
                if not ok:
                    raise Violation("C13/map/add-refused", f"{where}: add() refused on an unfrozen map")
                if any(x is s for x in model):
                    last_was_repeat = True
                    stats.label("repeat_add")
                else:
                    if last_was_repeat:
                        stats.label("repeat_then_new")
                        stats.nontrivial = True
                    model.append(s)
        elif op[0] == "add_bad":
            try:
                emap.add(bad[op[1]])
            except (TypeError, ValueError):
                pass
            else:
                raise Violation("C13/map/add-bad-accepted", f"{where}")
        elif op[0] == "index":
            s = pool[op[1]]
            present = any(x is s for x in model)
            try:
                i = emap.index(s)
                if not present:
                    raise Violation("C13/map/index-absent", f"{where}: index() of a never-added source returned {i}")
            except KeyError:
                if present:
                    raise Violation("C13/map/index", f"{where}: KeyError for an added source")
                stats.label("index_absent")
        elif op[0] == "index_bad":
            try:
                emap.index(bad[op[1]])
            except (TypeError, KeyError):
                pass
            else:
                raise Violation("C13/map/index-bad-accepted", f"{where}")
        elif op[0] == "monitor_bad":
            try:
                event.Monitor(emap, trigger=op[1])
            except (TypeError, ValueError):
                stats.label("refused_monitor")
            else:
                raise Violation("C13/map/monitor-bad-accepted", f"{where}: Monitor(trigger={op[1]!r}) accepted")
        elif op[0] == "freeze":
            emap.freeze()
            frozen = True
        elif op[0] == "add_other":
            s2 = pool[op[1]]
            other.add(s2)
            if not any(x is s2 for x in other_model):
                other_model.append(s2)
            ix = lambda lst, x: [k for k, y in enumerate(lst) if y is x][0]
            if any(x is s2 for x in model) and ix(model, s2) != ix(other_model, s2):
                stats.label("source_in_two_maps")
            for i2, x in enumerate(other_model):
                if other.index(x) != i2:
                    raise Violation("C13/map/index", f"{where}: second map index {other.index(x)}, model {i2}")
        verify(where)


def _check_sim(spec, stats):
    stats.label("kind:sim")
    modes = spec["modes"]
    n = len(modes)
    srcs = [event.Source(trigger=m, path=(f"s{i}",)) for i, m in enumerate(modes)]
    emap = event.EventMap()
    first = []
    for k in spec["order"]:
        emap.add(srcs[k])
        if k not in first:
            first.append(k)
    for k in range(n):
        emap.add(srcs[k])
        if k not in first:
            first.append(k)
    # bit b belongs to source first[b]
    for b, k in enumerate(first):
        if emap.index(srcs[k]) != b:
            raise Violation("C13/map/index", f"source {k} added {b}-th first, index() = {emap.index(srcs[k])}")
    for m in modes:
        stats.label("mode:" + m)
    mon = event.Monitor(emap, trigger=spec["trigger"])
    parent = None
    if spec.get("cascade") is not None:
        stats.label("cascaded")
        pmap = event.EventMap()
        others = [event.Source(trigger="level", path=(f"p{i}",)) for i in range(spec["cascade"])]
        for o in others[:len(others) // 2]:
            pmap.add(o)
        pmap.add(mon.src)
        for o in others[len(others) // 2:]:
            pmap.add(o)
        parent = event.Monitor(pmap, trigger="level")
        pbit = len(others) // 2
        if pmap.index(mon.src) != pbit:
            raise Violation("C13/map/index", f"parent map: index(child.src) = {pmap.index(mon.src)}, added {pbit}-th")
        ppend = [0]
        pprev = [0]
    top = sim.wrap(mon, parent) if parent is not None else sim.wrap(mon)
    i_cat = [s.i for s in srcs]
    trg_cat = Cat(*[s.trg for s in srcs])
    prev = [0] * n
    pending = [0]
    full = (1 << n) - 1

    async def tb(ctx):
        for t, (inp, en, clr) in enumerate(spec["cycles"]):
            inp &= full; en &= full; clr &= full
            for k in range(n):
                ctx.set(i_cat[k], (inp >> k) & 1)
            if n:
                ctx.set(mon.enable, en)
                ctx.set(mon.clear, clr)
            # expected triggers (per source index k) and per bit b
            trg_k = []
            for k in range(n):
                cur = (inp >> k) & 1
                trg_k.append(cur if modes[k] == "level" else int(cur and not prev[k]) if modes[k] == "rise"
                             else int(prev[k] and not cur))
            got_trg = ctx.get(trg_cat) if n else 0
            exp_trg = sum(v << k for k, v in enumerate(trg_k))
            where = f"cycle {t} inputs={inp:#b} enable={en:#b} clear={clr:#b} pending(model)={pending[0]:#b}"
            if got_trg != exp_trg:
                raise Violation("C13/trg", f"{where}: trg={got_trg:#b}, expected {exp_trg:#b} (modes {modes})")
            got_p = ctx.get(mon.pending) if n else 0
            if got_p != pending[0]:
                raise Violation("C13/pending", f"{where}: pending={got_p:#b}, expected {pending[0]:#b} "
                                f"(bit b <-> source {first})")
            got_i = ctx.get(mon.src.i)
            if got_i != int(bool(en & pending[0])):
                raise Violation("C13/src.i", f"{where}: src.i={got_i}, expected {int(bool(en & pending[0]))}")
            if parent is not None:
                # the parent sees the child's line through a source of the child's trigger mode
                ctx.set(parent.enable, 1 << pbit)
                mode = spec["trigger"]
                ptrg = got_i if mode == "level" else int(got_i and not pprev[0]) if mode == "rise" else int(pprev[0] and not got_i)
                if ctx.get(mon.src.trg) != ptrg:
                    raise Violation("C13/cascade/trg", f"{where}: child.src.trg={ctx.get(mon.src.trg)}, expected {ptrg} ({mode})")
                if ctx.get(parent.pending) != ppend[0]:
                    raise Violation("C13/cascade/pending", f"{where}: parent pending={ctx.get(parent.pending):#b}, expected {ppend[0]:#b}")
                if ctx.get(parent.src.i) != int(bool(ppend[0])):
                    raise Violation("C13/cascade/src.i", f"{where}: parent src.i={ctx.get(parent.src.i)}, expected {int(bool(ppend[0]))}")
                if ptrg:
                    ppend[0] |= 1 << pbit
                pprev[0] = got_i
            if pending[0] and en and (en & full) != full and en & pending[0] != pending[0]:
                stats.label("enable_partial")
            if en and pending[0] and not (en & pending[0]):
                stats.label("enable_disjoint")
            nxt = pending[0]
            for b, k in enumerate(first):
                if trg_k[k]:
                    if (clr >> b) & 1:
                        stats.label("trigger_and_clear")
                    nxt |= 1 << b
                elif (clr >> b) & 1:
                    nxt &= ~(1 << b)
            pending[0] = nxt
            for k in range(n):
                prev[k] = (inp >> k) & 1
            await ctx.tick()

    sim.simulate(top, tb)
    stats.add("simulated_cycles", len(spec["cycles"]))
    stats.label("shuffled_order", first != list(range(n)))
    stats.label("sources>=64", n >= 64)
    stats.nontrivial = n >= 3 and len(set(modes)) >= 2 and stats.has("trigger_and_clear")


def check(spec, stats):
    if sim.set_pre(spec):
        stats.label("pre_elaborated")
    if spec["kind"] == "map":
        _check_map(spec, stats)
    else:
        _check_sim(spec, stats)
