"""C14 — CSR event monitor: enable reads back, pending is read / write-one-to-clear."""
# amaranth: UnusedElaboratable=no
from hypothesis import strategies as st

from amaranth import Module, Cat
from amaranth.lib import wiring

from amaranth_soc import csr, event
from amaranth_soc.csr.event import EventMonitor
from amaranth_soc.memory import MemoryMap

from vlib import sim, gens
from vlib.csrmodel import MuxModel, Reg, hval, flatten, conforming_stimulus
from vlib.common import Violation

RULE = ("Event count 0..2*dw+3, data width in {4,8,16}, alignment 0-3, a trigger mode per source; the "
        "monitor is attached either through a csr.Decoder (behind another window, so at a non-zero "
        "base) or by wiring.connect() of an initiator interface. Schedules of conforming CSR "
        "transactions on the addresses memory_map.all_resources() reports for 'enable' and "
        "'pending' (complete / aborted, pipelined or spaced, r / w / r+w, unmapped accesses) run "
        "against arbitrary source waveforms on every cycle. Every cycle bus.r_data and the outgoing "
        "src.i are compared with the composed multiplexer + event-monitor model (write visible 2 "
        "cycles after the last chunk, clear combinational from the register strobe, trigger beats "
        "clear). Non-trivial = masks spanning > 1 chunk, an event arriving in the very cycle of its "
        "clear, and a multi-chunk pending read. Distinct = canonical JSON.")
BUDGET = {"quick": (16, 150), "thorough": (16, 4000)}
ESSENTIAL = ["attach:decoder", "attach:connect", "multi_chunk_masks", "non_pow2_chunks", "event_in_clear_cycle",
             "pending_write", "enable_write", "pending_multichunk_read", "zero_events", "alignment_padding", "events>=64", "chunks>8", "enable_one_hot"]
ASSUMPTIONS = [
    "mask registers are written completely or not at all (chunk-skipping writes leave unspecified bits)",
    "observation is through the bus port and the outgoing src.i only",
]
MODES = ["level", "rise", "fall"]


@st.composite
def _spec(draw, tier):
    dw = draw(st.sampled_from([4, 8, 8, 16]))
    n = draw(st.one_of(st.integers(0, 2 * dw + 3), st.integers(dw + 1, 2 * dw + 3)))
    if draw(st.integers(0, 11)) == 0:
        n = draw(st.sampled_from([63, 64, 65, 66, 70, 72, 8 * dw + 1, 9 * dw, 200, 300]))   # > 64 events / > 8 chunks per mask
    return {"n": n, "dw": dw, "al": draw(st.sampled_from([0, 0, 0, 1, 2, 3])),
            "modes": [draw(st.sampled_from(MODES)) for _ in range(n)],
            "trigger": draw(st.sampled_from(MODES)),
            "attach": draw(st.sampled_from(["decoder", "connect"])),
            "base_sub_aw": draw(st.integers(1, 3)),
            "stim": draw(conforming_stimulus(max_txn=24, min_txn=6)),
            "src_bias": draw(st.sampled_from([1, 2, 4])), "src_hold": draw(st.integers(1, 4)),
            # sources added to the map a second time while it is being built (a no-op that must not shift later indices)
            "repeat": draw(st.lists(st.integers(0, 40), max_size=3)) if draw(st.integers(0, 3)) == 0 else []}


def strategy(tier):
    return gens.with_pre(_spec(tier))


def pinned():
    # a monitor with several hundred events, run outside Hypothesis (which raises the interpreter's
    # recursion limit while it runs a test): the default limit of a user's interpreter applies
    out = []
    for n in (200, 300):
        out.append((f"wide-{n}", {"n": n, "dw": 8, "al": 0, "modes": [MODES[k % 3] for k in range(n)], "trigger": "level",
                                  "attach": "connect", "base_sub_aw": 1, "src_bias": 2, "src_hold": 2, "pre": 0,
                                  "stim": {"kind": "conf", "dseed": 11, "txns": [
                                      {"reg": 0, "mode": "w", "len": "full", "k": 0, "gap": 1, "inner_gap": 0, "unmapped": "", "pat": "ones"},
                                      {"reg": 1, "mode": "r", "len": "full", "k": 0, "gap": 1, "inner_gap": 0, "unmapped": "", "pat": "ones"}]}}))
    return out


def check(spec, stats):
    if sim.set_pre(spec):
        stats.label("pre_elaborated")
    n, dw, al = spec["n"], spec["dw"], spec["al"]
    modes = spec["modes"]
    srcs = [event.Source(trigger=m, path=(f"s{k}",)) for k, m in enumerate(modes)]
    emap = event.EventMap()
    for k, s in enumerate(srcs):
        emap.add(s)
        for r in spec.get("repeat", []):
            if r % max(n, 1) == k:
                emap.add(srcs[(r * 7) % (k + 1)])
                stats.label("source_added_twice")
    mon = EventMonitor(emap, trigger=spec["trigger"], data_width=dw, alignment=al)
    stats.label("attach:" + spec["attach"])
    if spec["attach"] == "decoder":
        other = csr.Interface(addr_width=spec["base_sub_aw"], data_width=dw, path=("other",))
        other.memory_map = MemoryMap(addr_width=spec["base_sub_aw"], data_width=dw)
        aw = max(mon.bus.addr_width, spec["base_sub_aw"]) + 2
        dec = csr.Decoder(addr_width=aw, data_width=dw)
        dec.add(other, name=("other",))
        dec.add(mon.bus, name=("mon",))
        root, rmap = dec.bus, dec.bus.memory_map
        top = sim.wrap(dec, mon)
    else:
        init = csr.Signature(addr_width=mon.bus.addr_width, data_width=dw).create(path=("init",))
        top = sim.wrap(mon)
        try:
            wiring.connect(top, init, mon.bus)
        except wiring.ConnectionError as e:
            raise Violation("C14/connect", f"connect(m, initiator, monitor.bus) failed: {e}")
        root, rmap = init, mon.bus.memory_map
        other = None
    infos = {tuple(i.path[-1]): i for i in rmap.all_resources()}
    if set(infos) != {("enable",), ("pending",)}:
        raise Violation("C14/memory-map", f"resources {sorted(infos)}; expected enable and pending")
    chunks = max(1, -(-n // dw))
    regs = []
    for name in ("enable", "pending"):
        i = infos[(name,)]
        if i.end - i.start < chunks or i.width != dw:
            raise Violation("C14/memory-map", f"{name} at [{i.start},{i.end}) x{i.width}: too small for {n} events")
        regs.append(Reg(i.start, i.end, n, "rw"))
    if regs[0].end > regs[1].start and regs[1].end > regs[0].start:
        raise Violation("C14/memory-map", "enable and pending overlap")
    stats.label("multi_chunk_masks", chunks > 1)
    stats.label("non_pow2_chunks", chunks & (chunks - 1) != 0)
    stats.label("zero_events", n == 0)
    stats.label("events>=64", n >= 64)
    stats.label("chunks>8", chunks > 8)
    stats.label("alignment_padding", regs[0].end - regs[0].start > chunks)
    stim = dict(spec["stim"])
    stim["txns"] = [dict(x, len="full" if x["len"] == "skip" else x["len"]) for x in stim["txns"]]
    cycles, facts = flatten(stim, regs, root.addr_width, dw)
    for f in facts:
        if f[0] == "unmapped":
            continue
        mode, ri, complete, ln, gap, cnt = f
        if complete and "w" in mode:
            stats.label("enable_write" if ri == 0 else "pending_write")
        if complete and "r" in mode and ri == 1 and chunks > 1:
            stats.label("pending_multichunk_read")
    model = MuxModel(dw, regs)
    seed = stim["dseed"]
    full = (1 << n) - 1
    state = {"enable": 0, "pending": 0, "prev": [0] * n}

    async def tb(ctx):
        for t, (addr, r_stb, w_stb, w_data, txn, note) in enumerate(cycles):
            ctx.set(root.addr, addr); ctx.set(root.r_stb, r_stb); ctx.set(root.w_stb, w_stb); ctx.set(root.w_data, w_data)
            if other is not None:
                ctx.set(other.r_data, 0)
            inp = []
            for k, s in enumerate(srcs):
                v = int(hval(seed, f"s{k}", t // spec["src_hold"], 3) < spec["src_bias"])
                inp.append(v)
                ctx.set(s.i, v)
            e = model.step(addr, r_stb, w_stb, w_data, [state["enable"], state["pending"]], txn)
            where = (f"cycle {t} ({note}) addr={addr:#x} r_stb={r_stb} w_stb={w_stb} w_data={w_data:#x} "
                     f"enable={state['enable']:#x} pending={state['pending']:#x} inputs={inp} "
                     f"(enable at [{regs[0].start},{regs[0].end}), pending at [{regs[1].start},{regs[1].end}))")
            got = ctx.get(root.r_data)
            if e.r_data_known and got != e.r_data:
                raise Violation("C14/r_data", f"{where}: bus.r_data={got:#x}, expected {e.r_data:#x}")
            irq = ctx.get(mon.src.i)
            exp_irq = int(bool(state["enable"] & state["pending"]))
            if irq != exp_irq:
                raise Violation("C14/src.i", f"{where}: src.i={irq}, expected {exp_irq}")
            # next state
            trg = 0
            for k in range(n):
                m = modes[k]
                tk = inp[k] if m == "level" else int(inp[k] and not state["prev"][k]) if m == "rise" else int(state["prev"][k] and not inp[k])
                trg |= tk << k
                state["prev"][k] = inp[k]
            clear = 0
            if e.w_stb[1]:
                if e.w_mask[1] != full:
                    raise Violation("C14/harness", "partial pending write generated")  # pragma: no cover
                clear = e.w_data[1]
            if e.w_stb[0]:
                state["enable"] = e.w_data[0]
                stats.label("enable_one_hot", n > 1 and bin(e.w_data[0]).count("1") == 1)
            if clear & trg:
                stats.label("event_in_clear_cycle")
            state["pending"] = (state["pending"] & ~clear | trg) & full
            await ctx.tick()

    sim.simulate(top, tb)
    stats.add("simulated_cycles", len(cycles))
    stats.nontrivial = chunks > 1 and stats.has("event_in_clear_cycle") and stats.has("pending_multichunk_read")
