"""C15 — Wishbone SRAM behaves as a memory with a one-cycle, single acknowledge."""
# amaranth: UnusedElaboratable=no
from hypothesis import strategies as st

from amaranth_soc.wishbone.sram import WishboneSRAM

from vlib import sim, gens
from vlib.csrmodel import hval
from vlib.common import Violation

RULE = ("SRAM geometry (size 1..256 granules, data width 8-64, granularity <= data width, incl. "
        "combinations that must be refused), writable or not, init image (empty/short/full); 20-150 "
        "cycles of arbitrary cyc/stb/we/adr/sel/dat_w where each signal group is either redrawn or "
        "held from the previous cycle (so requests are held through the acknowledge, changed during "
        "it, dropped, or appear as cyc-only/stb-only). Every cycle ack is compared with "
        "ack' = !ack & cyc & stb, dat_r at the ack of a read with the model word, and the memory rows "
        "(read through the simulator from the Memory object the SRAM's memory map lists) with the "
        "model image (addressed row every cycle, full image every 4 cycles and at the end). "
        "Non-trivial = >= 2 rows, a write with a partial select, a request held through its ack cycle "
        "and a read of a previously written word. Distinct = canonical JSON.")
BUDGET = {"quick": (16, 500), "thorough": (16, 8000)}
ESSENTIAL = ["writable", "read_only", "partial_select_write", "held_through_ack", "changed_during_ack",
             "stb_only", "cyc_only", "read_after_write", "write_to_read_only", "refused_geometry",
             "granularity<dw", "init_short", "init_one_shot_iterable", "init_edited:inplace", "init_edited:setter_short"]
ASSUMPTIONS = ["memory rows are observed through the simulator's access to lib.memory.Memory.data rows",
               "dat_r is only compared in the acknowledge cycle of a read"]


@st.composite
def _spec(draw, tier):
    dw = draw(st.sampled_from([8, 16, 32, 32, 64]))
    g = draw(st.sampled_from([None] + [x for x in (8, 16, 32, 64) if x <= dw]))
    size = draw(st.sampled_from([1, 2, 2, 4, 4, 8, 8, 16, 32, 64, 256, 2048]))
    if draw(st.integers(0, 19)) == 0:
        size = draw(st.sampled_from([3, 0, 6]))
    init_mode = draw(st.sampled_from(["none", "short", "full", "full"]))
    init_kind = draw(st.sampled_from(["list", "list", "tuple", "generator", "iter", "map"]))
    init_edit = draw(st.sampled_from(["none", "none", "none", "setter_full", "setter_short", "inplace", "slice"]))
    return {"size": size, "dw": dw, "g": g, "writable": draw(st.sampled_from([True, True, False])),
            "init_mode": init_mode, "init_kind": init_kind, "init_edit": init_edit, "dseed": draw(st.integers(0, 1 << 30)), "cycles": draw(st.integers(20, 150)),
            "p_hold": draw(st.sampled_from([1, 2, 3])), "p_req": draw(st.sampled_from([2, 3, 3])),
            "adr_span": draw(st.sampled_from([1, 2, 4, 0])),
            # the same init object was first offered to a constructor call that is refused (a refusal must not use it up)
            "refused_first": draw(st.sampled_from([None, None, None, "geometry", "size", "width"]))}


def strategy(tier):
    return gens.with_pre(_spec(tier), prelude=False)    # memory contents survive a reset


def check(spec, stats):
    if sim.set_pre(spec):
        stats.label("pre_elaborated")
    dw, size, seed = spec["dw"], spec["size"], spec["dseed"]
    g = dw if spec["g"] is None else spec["g"]
    legal = size > 0 and size & (size - 1) == 0 and size * g >= dw
    depth = (size * g) // dw if legal else 0
    init = []
    if legal and spec["init_mode"] != "none":
        n = depth if spec["init_mode"] == "full" else max(1, depth // 2)
        init = [hval(seed, "init", i, dw) for i in range(n)]
    kind = spec.get("init_kind", "list")
    init_arg = {"list": lambda: list(init), "tuple": lambda: tuple(init), "generator": lambda: (v for v in init),
                "iter": lambda: iter(init), "map": lambda: map(int, init)}[kind]()
    stats.label("init_one_shot_iterable", kind in ("generator", "iter", "map") and any(init))
    rf = spec.get("refused_first")
    if rf and legal:
        bad = {"geometry": dict(size=1, data_width=64, granularity=8), "size": dict(size=3, data_width=dw, granularity=spec["g"]),
               "width": dict(size=size, data_width=12, granularity=spec["g"])}[rf]
        try:
            WishboneSRAM(writable=spec["writable"], init=init_arg, **bad)
        except (TypeError, ValueError):
            stats.label("refused_call_first")
        else:
            raise Violation("C15/illegal-geometry-accepted", f"{bad}")
    try:
        dut = WishboneSRAM(size=size, data_width=dw, granularity=spec["g"], writable=spec["writable"], init=init_arg)
    except (TypeError, ValueError) as e:
        if size == 1:
            stats.label("size1_refused")      # below the stated domain (2..N granules): either outcome
            return
        if legal:
            raise Violation("C15/legal-geometry-refused", f"size={size} dw={dw} g={g}: {e}")
        stats.label("refused_geometry")
        return
    if not legal:
        raise Violation("C15/illegal-geometry-accepted", f"size={size} dw={dw} g={g}")
    bus = dut.wb_bus
    aw = depth.bit_length() - 1
    if (bus.addr_width, bus.data_width, bus.granularity) != (aw, dw, g):
        raise Violation("C15/bus-geometry", f"bus {bus.addr_width}x{bus.data_width}/{bus.granularity}, expected {aw}x{dw}/{g}")
    from amaranth.lib.memory import Memory
    mems = [i.resource for i in bus.memory_map.all_resources() if isinstance(i.resource, Memory)]
    if len(mems) != 1:
        raise RuntimeError("harness: cannot find the SRAM's Memory through its memory map")
    mem = mems[0]
    stats.label("writable" if spec["writable"] else "read_only")
    stats.label("granularity<dw", g < dw)
    stats.label("init_short", 0 < len(init) < depth)
    image = list(init) + [0] * (depth - len(init))
    # the init image may be changed through the `init` attribute before the SRAM is used
    edit = spec.get("init_edit", "none")
    if edit == "setter_full":
        image = [hval(seed, "init2", i, dw) for i in range(depth)]
        dut.init = list(image)
    elif edit == "setter_short":
        short = [hval(seed, "init3", i, dw) for i in range(max(1, depth // 2))]
        dut.init = short
        image = short + [0] * (depth - len(short))
        stats.label("init_setter_shorter_image", any(init[len(short):]))
    elif edit == "inplace":
        for i in range(0, depth, 2):
            image[i] = hval(seed, "init4", i, dw)
            dut.init[i] = image[i]
    elif edit == "slice" and depth >= 2:
        image[0:2] = [hval(seed, "init5", 0, dw), hval(seed, "init5", 1, dw)]
        dut.init[0:2] = image[0:2]
    stats.label("init_edited:" + edit, edit != "none")
    nsel = dw // g
    top = sim.wrap(dut)
    st_ = {"ack": 0, "prev": None, "read_exp": None, "written": set(), "req_prev": None}

    async def tb(ctx):
        cur = {"cyc": 0, "stb": 0, "we": 0, "adr": 0, "sel": 0, "dat_w": 0}
        for t in range(spec["cycles"]):
            # each signal group is redrawn or held
            if hval(seed, "hc", t, 2) >= spec["p_hold"] or t == 0:
                cur["cyc"] = int(hval(seed, "cyc", t, 2) < spec["p_req"])
                cur["stb"] = int(hval(seed, "stb", t, 2) < spec["p_req"])
            if hval(seed, "ha", t, 2) >= spec["p_hold"] or t == 0:
                span = depth if spec["adr_span"] == 0 else min(depth, spec["adr_span"])
                cur["adr"] = hval(seed, "adr", t, 16) % span
                cur["we"] = hval(seed, "we", t, 1)
            if hval(seed, "hd", t, 2) >= spec["p_hold"] or t == 0:
                cur["sel"] = hval(seed, "sel", t, nsel) if hval(seed, "sm", t, 2) else (1 << nsel) - 1
                cur["dat_w"] = hval(seed, "dat", t, dw)
            ctx.set(bus.cyc, cur["cyc"]); ctx.set(bus.stb, cur["stb"]); ctx.set(bus.we, cur["we"])
            if aw:
                ctx.set(bus.adr, cur["adr"])
            ctx.set(bus.sel, cur["sel"]); ctx.set(bus.dat_w, cur["dat_w"])
            where = f"cycle {t} inputs {cur} model ack={st_['ack']}"
            ack = ctx.get(bus.ack)
            if ack != st_["ack"]:
                raise Violation("C15/ack", f"{where}: ack={ack}, expected {st_['ack']} (ack' = !ack & cyc & stb)")
            if ack and st_["read_exp"] is not None:
                got = ctx.get(bus.dat_r)
                if got != st_["read_exp"]:
                    raise Violation("C15/read-data", f"{where}: dat_r={got:#x} at the acknowledge of a read of word "
                                    f"{st_['req_prev']['adr']}, model holds {st_['read_exp']:#x}")
            # memory image: addressed row now, everything periodically
            full_every = 4 if depth <= 64 else 64
            rows = range(depth) if (t % full_every == 0 or t == spec["cycles"] - 1) else {cur["adr"], st_["req_prev"]["adr"] if st_["req_prev"] else 0}
            for r in rows:
                got = ctx.get(mem.data[r])
                if got != image[r]:
                    raise Violation("C15/memory-image", f"{where}: row {r} holds {got:#x}, model {image[r]:#x} "
                                    f"(last accepted request {st_['req_prev']})")
            # labels
            req = cur["cyc"] and cur["stb"]
            if ack and req:
                stats.label("held_through_ack")
                if st_["req_prev"] and any(st_["req_prev"][k] != cur[k] for k in ("adr", "we", "sel", "dat_w")):
                    stats.label("changed_during_ack")
            stats.label("stb_only", bool(cur["stb"] and not cur["cyc"]))
            stats.label("cyc_only", bool(cur["cyc"] and not cur["stb"]))
            # model step
            st_["read_exp"] = None
            if not ack and req:
                st_["ack"] = 1
                st_["req_prev"] = dict(cur)
                if cur["we"]:
                    if spec["writable"]:
                        v = image[cur["adr"]]
                        for lane in range(nsel):
                            if (cur["sel"] >> lane) & 1:
                                m = ((1 << g) - 1) << (lane * g)
                                v = (v & ~m) | (cur["dat_w"] & m)
                        image[cur["adr"]] = v
                        st_["written"].add(cur["adr"])
                        stats.label("partial_select_write", nsel > 1 and cur["sel"] not in (0, (1 << nsel) - 1))
                    else:
                        stats.label("write_to_read_only")
                else:
                    st_["read_exp"] = image[cur["adr"]]
                    stats.label("read_after_write", cur["adr"] in st_["written"])
            else:
                st_["ack"] = 0
            await ctx.tick()

    sim.simulate(top, tb)
    stats.add("simulated_cycles", spec["cycles"])
    stats.nontrivial = (depth >= 2 and stats.has("partial_select_write") and stats.has("held_through_ack")
                        and stats.has("read_after_write"))
