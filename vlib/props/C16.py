"""C16 — GPIO pins follow their mode table, inputs are delayed exactly, pins independent."""
# amaranth: UnusedElaboratable=no
from hypothesis import strategies as st

from amaranth import Cat

from amaranth_soc import gpio

from vlib import sim, gens
from vlib.csrmodel import MuxModel, Reg, hval, flatten, conforming_stimulus
from vlib.common import Violation

RULE = ("Pin count 1..dw+3, data width in {8,16,32}, address width sufficient or insufficient "
        "(refusal), input_stages 0-3; schedules of conforming CSR transactions (complete/aborted, "
        "r / w / r+w, pipelined or spaced) on Mode/Input/Output/SetClr at the addresses the memory "
        "map reports by name, written data random so that per-pin values differ, interleaved with "
        "arbitrary pin input waveforms every cycle. Every cycle bus.r_data, every pin's o/oe and "
        "alt_mode are compared with the GPIO model composed with the multiplexer model (mode table, "
        "set/clr code priority over direct writes, Input = pin level delayed by exactly input_stages "
        "cycles). Non-trivial = multi-chunk Mode/SetClr (2*pins > data width), >= 3 distinct modes "
        "present at once, stages >= 1, a SetClr write with code 11 on a pin whose output bit is 1, "
        "and an Input read. Distinct = canonical JSON.")
BUDGET = {"quick": (16, 100), "thorough": (16, 3000)}
ESSENTIAL = ["multi_chunk_mode", "modes>=3", "stages:0", "stages:1", "stages:2", "stages:3", "setclr_11_on_set_bit",
             "setclr_set", "setclr_clr", "output_write", "input_read", "open_drain_seen", "alternate_seen",
             "refused_addr_width", "bus_wider_than_64", "pins>100"]
ASSUMPTIONS = [
    "Mode/Output/SetClr are written completely or not at all (chunk-skipping writes leave unspecified bits)",
    "pin inputs before cycle 0 are low (synchroniser flops start at 0)",
]
NAMES = ["Mode", "Input", "Output", "SetClr"]


@st.composite
def _spec(draw, tier):
    dw = draw(st.sampled_from([8, 8, 16, 32, 24, 40]))      # 24 and 40: bus widths that are not powers of two
    pins = draw(st.one_of(st.integers(1, dw + 3), st.integers(dw // 2 + 1, dw + 3), st.integers(1, 6)))
    big = draw(st.integers(0, 19))
    if big == 0:
        dw, pins = 128, draw(st.sampled_from([33, 65, 70]))       # bus wider than 64 bits
    elif big == 1:
        dw, pins = draw(st.sampled_from([32, 64])), draw(st.sampled_from([101, 104, 112]))   # more than 100 pins
    return {"pins": pins, "dw": dw, "aw_slack": draw(st.sampled_from([0, 0, 0, 0, 1, 1, 2, 0, 0, -1])),
            "stages": draw(st.integers(0, 3)), "stim": draw(conforming_stimulus(max_txn=40, min_txn=12, modes=("r", "w", "w", "w", "rw"))),
            "pin_hold": draw(st.integers(1, 4)),
            "weights": draw(st.lists(st.integers(0, 3), min_size=16, max_size=16)),
            # synchronous resets of the peripheral between bus transactions, pins carrying whatever they carry
            "resets": draw(st.sampled_from([0, 0, 0, 1, 2]))}


def strategy(tier):
    return gens.with_pre(_spec(tier), flush=8)    # the input synchroniser is reset-less by design: let it drain


def check(spec, stats):
    if sim.set_pre(spec):
        stats.label("pre_elaborated")
    pins, dw, stages = spec["pins"], spec["dw"], spec["stages"]
    # address space needed: Mode, SetClr: ceil(2p/dw) rounded to pow2; Input, Output: ceil(p/dw) rounded
    def span(w):
        c = max(1, -(-w // dw))
        return 1 << (c - 1).bit_length()
    # natural alignment placement in insertion order Mode, Input, Output, SetClr
    cur, plan = 0, []
    for w in (2 * pins, pins, pins, 2 * pins):
        s = span(w)
        start = -(-cur // s) * s
        plan.append((start, start + s))
        cur = start + s
    need_aw = max(1, (cur - 1).bit_length())
    aw = need_aw + spec["aw_slack"]
    if aw < 1:
        aw = 1
    try:
        dut = gpio.Peripheral(pin_count=pins, addr_width=aw, data_width=dw, input_stages=stages)
    except ValueError as e:
        # an address space too small for the registers is refused; where exactly the limit lies is the
        # builder's business (C17), so a refusal is never a verdict here
        stats.label("refused_addr_width")
        return
    infos = {tuple(i.path[-1]): i for i in dut.bus.memory_map.all_resources()}
    if set(infos) != {(n,) for n in NAMES}:
        raise Violation("C16/memory-map", f"resources {sorted(infos)}")
    widths = [2 * pins, pins, pins, 2 * pins]
    accs = ["rw", "r", "rw", "w"]
    regs = []
    for name, w, a in zip(NAMES, widths, accs):
        i = infos[(name,)]
        if i.end - i.start < max(1, -(-w // dw)):
            raise Violation("C16/memory-map", f"{name} at [{i.start},{i.end}) is too small for {w} bits on a {dw}-bit bus")
        regs.append(Reg(i.start, i.end, w, a))
    regs_sorted = sorted(regs, key=lambda r: r.start)
    if any(a.end > b.start for a, b in zip(regs_sorted, regs_sorted[1:])):
        raise Violation("C16/memory-map", f"registers overlap: {[(r.start, r.end) for r in regs]}")
    stats.label("multi_chunk_mode", 2 * pins > dw)
    stats.label(f"stages:{stages}")
    stats.label("bus_wider_than_64", dw > 64)
    stats.label("pins>100", pins > 100)
    stim = dict(spec["stim"])
    # bias the register choice with the weights; no chunk-skipping writes
    order = [k for k in range(4) for _ in range(spec["weights"][k] + 1)]
    stim["txns"] = [dict(x, reg=order[x["reg"] % len(order)], len="full" if x["len"] == "skip" else x["len"])
                    for x in stim["txns"]]
    cycles, facts = flatten(stim, regs, aw, dw)
    for f in facts:
        if f[0] == "unmapped":
            continue
        mode, ri, complete, ln, gap, cnt = f
        if complete and "w" in mode and ri == 2:
            stats.label("output_write")
        if complete and "r" in mode and ri == 1:
            stats.label("input_read")
    model = [MuxModel(dw, regs)]
    seed = stim["dseed"]
    bus = dut.bus
    reset_at = set()
    if spec.get("resets"):
        # [idle, idle with reset asserted, idle] between two transactions
        from amaranth import Signal, ResetInserter
        rst = Signal(name="verif_rst")
        bounds = [t for t in range(1, len(cycles)) if cycles[t][4] != cycles[t - 1][4]]
        picks = sorted({bounds[hval(seed, "rst", k, 20) % len(bounds)] for k in range(spec["resets"])}, reverse=True) if bounds else []
        for t in picks:
            idle = (0, 0, 0, 0, None, "idle around reset")
            cycles[t:t] = [idle, idle, idle]
        off = 0
        for t in sorted(picks):
            reset_at.add(t + off + 1)
            off += 3
        top = sim.wrap(ResetInserter(rst)(dut))
        stats.label("reset_between_transactions", bool(reset_at))
    else:
        top = sim.wrap(dut)
    pm = (1 << pins) - 1
    st_ = {"mode": 0, "out": 0, "hist": [0] * (stages + 1)}
    o_cat = Cat(*[p.o for p in dut.pins])
    oe_cat = Cat(*[p.oe for p in dut.pins])

    async def tb(ctx):
        for t, (addr, r_stb, w_stb, w_data, txn, note) in enumerate(cycles):
            ctx.set(bus.addr, addr); ctx.set(bus.r_stb, r_stb); ctx.set(bus.w_stb, w_stb); ctx.set(bus.w_data, w_data)
            if reset_at:
                ctx.set(rst, int(t in reset_at))
            pin_i = 0
            for n in range(pins):
                v = hval(seed, f"pin{n}", t // spec["pin_hold"], 1)
                pin_i |= v << n
                ctx.set(dut.pins[n].i, v)
            # hist[0] = current level, hist[k] = level k cycles ago
            st_["hist"] = [pin_i] + st_["hist"][:stages]
            delayed = st_["hist"][stages]
            e = model[0].step(addr, r_stb, w_stb, w_data, [st_["mode"], delayed, st_["out"], 0], txn)
            where = (f"cycle {t} ({note}) addr={addr:#x} r_stb={r_stb} w_stb={w_stb} w_data={w_data:#x} mode={st_['mode']:#x} "
                     f"out={st_['out']:#b} pins_i={pin_i:#b} registers {[(n, r.start, r.end) for n, r in zip(NAMES, regs)]}")
            got = ctx.get(bus.r_data)
            if e.r_data_known and got != e.r_data:
                raise Violation("C16/r_data", f"{where}: bus.r_data={got:#x}, expected {e.r_data:#x} (stages={stages})")
            exp_o = exp_oe = exp_alt = 0
            modes_now = set()
            for n in range(pins):
                md = (st_["mode"] >> (2 * n)) & 3
                ob = (st_["out"] >> n) & 1
                modes_now.add(md)
                if md == 0:
                    o, oe, alt = ob, 0, 0
                elif md == 1:
                    o, oe, alt = ob, 1, 0
                elif md == 2:
                    o, oe, alt = 0, 1 - ob, 0
                    stats.label("open_drain_seen")
                else:
                    o, oe, alt = ob, 0, 1
                    stats.label("alternate_seen")
                exp_o |= o << n; exp_oe |= oe << n; exp_alt |= alt << n
            stats.label("modes>=3", len(modes_now) >= 3)
            go, goe, galt = ctx.get(o_cat), ctx.get(oe_cat), ctx.get(dut.alt_mode)
            if goe != exp_oe:
                raise Violation("C16/oe", f"{where}: pins.oe={goe:#b}, expected {exp_oe:#b}")
            # pin.o is only observable behaviour while driven or documented: compare all (documented table)
            if go != exp_o:
                raise Violation("C16/o", f"{where}: pins.o={go:#b}, expected {exp_o:#b}")
            if galt != exp_alt:
                raise Violation("C16/alt_mode", f"{where}: alt_mode={galt:#b}, expected {exp_alt:#b}")
            # next state
            full2 = (1 << (2 * pins)) - 1
            if e.w_stb[0]:
                if e.w_mask[0] != full2:
                    raise Violation("C16/harness", "partial Mode write generated")  # pragma: no cover
                st_["mode"] = e.w_data[0]
            setm = clrm = 0
            if e.w_stb[3]:
                for n in range(pins):
                    code = (e.w_data[3] >> (2 * n)) & 3
                    setm |= (code & 1) << n
                    clrm |= ((code >> 1) & 1) << n
                    if code == 3 and (st_["out"] >> n) & 1:
                        stats.label("setclr_11_on_set_bit")
                    stats.label("setclr_set", code == 1)
                    stats.label("setclr_clr", code == 2)
            new = st_["out"]
            if e.w_stb[2]:
                new = e.w_data[2]
            eff_set = setm & ~clrm
            eff_clr = clrm & ~setm
            new = (new | eff_set) & ~eff_clr
            # set/clr codes take priority over the direct write on their pins; 00/11 leave the direct write
            st_["out"] = new & pm
            if t in reset_at:
                # the registers return to their initial values; the pin synchroniser is reset-less and carries on
                st_["mode"] = st_["out"] = 0
                model[0] = MuxModel(dw, regs)
                if any(st_["hist"]):
                    stats.label("reset_with_pins_high")
            await ctx.tick()

    sim.simulate(top, tb)
    stats.add("simulated_cycles", len(cycles))
    stats.nontrivial = (2 * pins > dw and stats.has("modes>=3") and stages >= 1 and stats.has("input_read")
                        and stats.has("setclr_11_on_set_bit"))
