"""C17 — CSR builder lays registers out deterministically at the promised offsets."""
# amaranth: UnusedElaboratable=no
from hypothesis import strategies as st

from amaranth_soc import csr
from amaranth_soc.csr import action

from vlib.common import Violation
from vlib import gens
import vlib.sim  # noqa: F401

RULE = ("Builder geometry (address width 1-8, data width 1-64, granularity a divisor, or a "
        "non-divisor that must be refused) and histories of add(name, register of width 0..5 words, "
        "offset none/multiple/non-multiple/negative/non-int) inside nested Cluster/Index scopes "
        "(bad names/indices, failures caught inside or outside the with-block), duplicate register "
        "objects, freeze, add after freeze, as_memory_map (twice). Oracle: independent placement "
        "arithmetic (span = power of two >= ceil(w/dw), explicit address = offset*g/dw, implicit = "
        "first multiple of span at or after the previous register's end, names = scope path + name; "
        "overlap / name conflict / overflow => as_memory_map must raise). Non-trivial = >= 3 registers "
        "placed, >= 1 explicit offset, a multi-word register followed by an implicit one, and a scope. "
        "Distinct = canonical JSON.")
BUDGET = {"quick": (16, 500), "thorough": (16, 15000)}
ESSENTIAL = ["layout_ok", "layout_refused_overlap", "layout_refused_overflow", "layout_refused_name",
             "explicit_offset", "explicit_offset_near_end", "offset_beyond_2**53", "granularity!=8", "scope_cluster", "scope_index", "failed_op_in_scope_caught_outside",
             "failed_op_in_scope_caught_inside", "natural_alignment_gap", "frozen_add_refused", "bad_geometry_refused"]
ASSUMPTIONS = [
    "a zero-width register occupies one address (a memory-map range is never empty)",
    "register names do not contain '__'",
]

NAMES = ["a", "b", "c", "reg", "x0", "ab", "d", "e", "f", "status", "ctrl", "r1"]


def _add():
    return st.tuples(st.just("add"), st.sampled_from(NAMES + NAMES + NAMES + ["", None, 5]),
                     st.sampled_from([0, 1, 1, 2, 2, 3, 4, 5, "dw-1", "dw+1", "2dw+1"]),
                     gens.weighted((5, st.none()), (1, st.integers(0, 40)),
                                             (3, st.integers(0, 12).map(lambda k: ["mult", k])),
                                             (2, st.integers(1, 9).map(lambda d: ["end", d])),
                                             (1, st.integers(0, 40).map(lambda k: ["big", k])),
                                             (1, st.sampled_from([-1, "x", 1.5])))).map(list)


def _ops(depth=0):
    base = [(6, _add()), (1, st.tuples(st.just("dup"), st.integers(0, 5)).map(list)),
            # a register added to a second, independent builder at this point (possibly inside scopes of the first)
            (1, st.tuples(st.just("other"), st.sampled_from([0, 0, 1])).map(list)),
            # the same register name inside Cluster("k") and inside Index(k): different scopes ('3' is not 3)
            (1, st.tuples(st.just("twin_scopes"), st.sampled_from(NAMES), st.sampled_from([0, 1, 2, 7, 300])).map(list))]
    if depth < 3:
        sub = st.deferred(lambda: _ops(depth + 1))
        base += [(2, st.tuples(st.just("cluster"), st.sampled_from(NAMES + NAMES + ["0", "1", "2", "0", "1", "", 3]), sub,
                               st.sampled_from(["in", "out"])).map(list)),
                 (2, st.tuples(st.just("index"), st.sampled_from([0, 1, 2, 3, 0, 1, 2, -1, "i", 300, 300, 1000]), sub,
                               st.sampled_from(["in", "out"])).map(list)),
                 # the body runs inside a scope of the *second* builder (which must not qualify names of the first)
                 (1, st.tuples(st.just("other_scope"), sub).map(list))]
    if depth == 0:
        base = [(3 * w, x) for w, x in base] + [(1, st.just(["freeze"])), (1, st.just(["as_memory_map"]))]
    return st.lists(gens.weighted(*base), min_size=4 if depth == 0 else 1, max_size=12 if depth == 0 else 3)


@st.composite
def _spec(draw, tier):
    dw = draw(st.sampled_from([1, 4, 8, 8, 8, 16, 16, 32, 32, 64, 12]))
    divs = [g for g in (1, 2, 4, 8, 16, 32, 64, 3, 12) if dw % g == 0]
    if draw(st.integers(0, 11)) == 0:
        g = draw(st.sampled_from([8, 3, 5, 16, 0]))
    else:
        g = draw(st.sampled_from(divs))
    aw = draw(st.sampled_from([1, 2, 3, 3, 4, 4, 5, 5, 6, 6, 8, 8, 8, 56, 60])) if draw(st.integers(0, 19)) else 0
    return {"aw": aw, "dw": dw, "g": g, "ops": draw(_ops())}


def strategy(tier):
    return _spec(tier)


class _Abort(Exception):
    pass


def pow2ceil(n):
    return 1 if n <= 1 else 1 << (n - 1).bit_length()


def conflict(n1, n2):
    k = min(len(n1), len(n2))
    return n1[:k] == n2[:k]


def fresh(x):
    """A new object equal to ``x`` (names and indices computed at run time are not the interned
    literals / small ints of a test)."""
    if isinstance(x, bool) or not isinstance(x, (int, str)):
        return x
    return int(str(x)) if isinstance(x, int) else "".join(list(x))


def check(spec, stats):
    aw, dw, g = spec["aw"], spec["dw"], spec["g"]
    bad_geo = aw <= 0 or g <= 0 or dw % g != 0
    try:
        b = csr.Builder(addr_width=aw, data_width=dw, granularity=g)
    except (TypeError, ValueError) as e:
        if not bad_geo:
            raise Violation("C17/legal-geometry-refused", f"aw={aw} dw={dw} g={g}: {e}")
        stats.label("bad_geometry_refused")
        return
    if bad_geo:
        raise Violation("C17/bad-geometry-accepted", f"aw={aw} dw={dw} g={g}")
    stats.label("granularity!=8", g != 8)
    ratio = dw // g
    model = []            # (reg, name tuple, width, offset)
    other = csr.Builder(addr_width=16, data_width=8)      # the second builder: one-byte registers, no offsets
    other_model, other_stack = [], []
    stack = []
    frozen = [False]
    regs = []

    def width_of(wspec):
        if isinstance(wspec, int):
            return wspec * dw
        return {"dw-1": max(dw - 1, 0), "dw+1": dw + 1, "2dw+1": 2 * dw + 1}[wspec]

    def run(ops, raising, in_scope):
        for op in ops:
            k = op[0]
            if k == "add":
                _, name, wspec, off = op
                w = width_of(wspec)
                if isinstance(off, list):
                    # ["mult", k]: bus address k; ["end", d]: d addresses before the end of the address space
                    if off[0] == "big":
                        # beyond 2**53 (only meaningful in a huge address space; elsewhere it overflows and must be refused later)
                        off = (min(1 << 54, (1 << aw) // 2) + off[1]) * ratio
                        stats.label("offset_beyond_2**53", aw >= 56)
                    else:
                        off = off[1] * ratio if off[0] == "mult" else max(0, (1 << aw) - off[1]) * ratio
                    if op[3][0] == "end":
                        stats.label("explicit_offset_near_end")
                reg = csr.Register(csr.Field(action.RW, w), access="rw")
                bad = (not isinstance(name, str) or not name
                       or (off is not None and (not isinstance(off, int) or off < 0 or off % ratio != 0))
                       or frozen[0])
                try:
                    ret = b.add(fresh(name), reg, offset=off)
                    ok = True
                except (TypeError, ValueError) as exc:
                    ok = False
                    e = exc
                if ok and bad:
                    raise Violation("C17/invalid-add-accepted", f"add({name!r}, offset={off!r}) accepted "
                                    f"(frozen={frozen[0]}, ratio={ratio})")
                if not ok and not bad:
                    raise Violation("C17/legal-add-refused", f"add({name!r}, width {w}, offset={off!r}) refused: {e}")
                if ok:
                    model.append((reg, tuple(stack) + (name,), w, off))
                    regs.append(reg)
                    if off is not None:
                        stats.label("explicit_offset")
                else:
                    if frozen[0]:
                        stats.label("frozen_add_refused")
                    if in_scope:
                        stats.label("failed_op_in_scope_caught_outside" if raising else "failed_op_in_scope_caught_inside")
                    if raising:
                        raise _Abort()
            elif k == "dup":
                if not regs:
                    continue
                reg = regs[op[1] % len(regs)]
                try:
                    b.add("dup", reg)
                except (TypeError, ValueError):
                    if in_scope:
                        stats.label("failed_op_in_scope_caught_outside" if raising else "failed_op_in_scope_caught_inside")
                    if raising:
                        raise _Abort()
                else:
                    raise Violation("C17/duplicate-register-accepted", "the same Register object was added twice")
            elif k in ("cluster", "index"):
                _, arg, body, catch = op
                if k == "cluster":
                    bad = not (isinstance(arg, str) and arg)
                    cm = b.Cluster
                else:
                    bad = not (isinstance(arg, int) and arg >= 0)
                    cm = b.Index
                entered = False
                try:
                    with cm(fresh(arg)):
                        entered = True
                        if not bad:
                            stack.append(arg)
                            stats.label("scope_" + k)
                            try:
                                run(body, catch == "out", True)
                            finally:
                                stack.pop()
                except _Abort:
                    pass
                except TypeError:
                    if entered or not bad:
                        raise
                if bad and entered:
                    raise Violation("C17/bad-scope-accepted", f"{k}({arg!r}) accepted")
            elif k == "twin_scopes":
                if frozen[0]:
                    continue
                for cm, arg in ((b.Cluster, str(op[2])), (b.Index, op[2])):
                    reg = csr.Register(csr.Field(action.RW, dw), access="rw")
                    with cm(fresh(arg)):
                        b.add(fresh(op[1]), reg)
                    model.append((reg, tuple(stack) + (arg, op[1]), dw, None))
                    regs.append(reg)
                stats.label("str_and_int_scope_of_the_same_spelling")
            elif k == "other":
                reg = csr.Register(csr.Field(action.RW, 8), access="rw")
                nm = f"o{len(other_model)}"
                if op[1]:
                    with other.Cluster("oc"):
                        other.add(nm, reg)
                    other_model.append((reg, tuple(other_stack) + ("oc", nm)))
                else:
                    other.add(nm, reg)
                    other_model.append((reg, tuple(other_stack) + (nm,)))
                stats.label("second_builder_add_inside_scope_of_first", bool(stack))
            elif k == "other_scope":
                with other.Index(7):
                    other_stack.append(7)
                    try:
                        run(op[1], raising, in_scope)
                    finally:
                        other_stack.pop()
                stats.label("first_builder_used_inside_scope_of_second")
            elif k == "freeze":
                b.freeze()
                frozen[0] = True
            elif k == "as_memory_map":
                finish("mid-history")
                frozen[0] = True

    def expected_layout():
        """-> ('ok', [(reg, name, start, end)]) or ('raise', reason)"""
        placed, cursor = [], 0
        for reg, name, w, off in model:
            span = max(1, pow2ceil(-(-w // dw)))
            if off is not None:
                start = off * g // dw
            else:
                start = -(-cursor // span) * span
                if start != cursor:
                    stats.label("natural_alignment_gap")
            end = start + span
            if end > (1 << aw):
                return "raise", "overflow"
            for _, n2, s2, e2 in placed:
                if start < e2 and s2 < end:
                    return "raise", "overlap"
            for _, n2, s2, e2 in placed:
                if conflict(name, n2):
                    return "raise", "name"
            placed.append((reg, name, start, end))
            cursor = end
        return "ok", placed

    def finish(where):
        kind, exp = expected_layout()
        outs = []
        for attempt in range(2):
            try:
                mm = b.as_memory_map()
            except ValueError as e:
                outs.append(("raise", str(e)[:120]))
                continue
            outs.append(("ok", [(r, tuple(n), s, e) for r, n, (s, e) in mm.resources()], mm))
        for attempt, out in enumerate(outs):
            if kind == "raise":
                if out[0] != "raise":
                    raise Violation(f"C17/bad-layout-accepted/{exp}", f"{where}: as_memory_map() returned "
                                    f"{[(n, s, e) for _, n, s, e in out[1]]} but the model finds {exp} "
                                    f"(registers {[(n, w, o) for _, n, w, o in model]}, dw={dw} g={g} aw={aw})")
            else:
                if out[0] == "raise":
                    raise Violation("C17/legal-layout-refused", f"{where}: as_memory_map() raised {out[1]!r}; model "
                                    f"layout {[(n, s, e) for _, n, s, e in exp]} (dw={dw} g={g} aw={aw})")
                want = sorted(exp, key=lambda x: x[2])
                got = out[1]
                if len(got) != len(want) or any(a[0] is not c[0] or a[1:] != c[1:] for a, c in zip(got, want)):
                    raise Violation("C17/layout", f"{where} (call #{attempt + 1}): resources() = "
                                    f"{[(n, s, e) for _, n, s, e in got]}, model {[(n, s, e) for _, n, s, e in want]} "
                                    f"(registers in insertion order {[(n, w, o) for _, n, w, o in model]}, dw={dw} g={g})")
        if kind == "raise":
            stats.label("layout_refused_" + exp)
        else:
            stats.label("layout_ok")
        # the builder is frozen afterwards
        try:
            b.add("late", csr.Register(csr.Field(action.R, 1), access="r"))
        except ValueError:
            pass
        else:
            raise Violation("C17/add-after-as_memory_map", f"{where}: add() accepted after as_memory_map()")
        return kind

    run(spec["ops"], False, False)
    if stack:
        raise Violation("C17/harness", "scope stack not empty")  # pragma: no cover
    kind = finish("final")
    if other_model:
        got = [(r, tuple(n), s, e) for r, n, (s, e) in other.as_memory_map().resources()]
        want = [(r, n, k, k + 1) for k, (r, n) in enumerate(other_model)]
        if len(got) != len(want) or any(a[0] is not c[0] or a[1:] != c[1:] for a, c in zip(got, want)):
            raise Violation("C17/layout-second-builder", f"an independent builder used alongside: resources() = "
                            f"{[(n, s, e) for _, n, s, e in got]}, expected {[(n, s, e) for _, n, s, e in want]}")
    multi_then_implicit = any(model[i][2] > dw and model[i + 1][3] is None for i in range(len(model) - 1))
    stats.add("registers", len(model))
    stats.nontrivial = (kind == "ok" and len(model) >= 3 and stats.has("explicit_offset") and multi_then_implicit
                        and (stats.has("scope_cluster") or stats.has("scope_index")))
