"""C18 — names in a memory map are unique and prefix-free; conflicts are refused."""
from hypothesis import strategies as st

from amaranth.lib import wiring
from amaranth_soc.memory import MemoryMap

from vlib.common import Violation

RULE = ("Histories of 3-40 add_resource / add_window(named) / add_window(anonymous) calls on a pool "
        "of 2-5 maps, names being tuples of 1-3 parts over the prefix-rich alphabet "
        "{'a','b','ab','0',0,1} (plus invalid names). Map i has address width 24-4i and windows "
        "only go from lower to higher index, all addresses implicit, so address space is never the "
        "reason for a refusal. Oracle: namespace model (accepted <=> no visible name is equal to / a "
        "prefix of / an extension of a new name, parts compared with ==); refusals must leave "
        "resources()/windows()/all_resources() unchanged; final all_resources() paths pairwise "
        "distinct. Non-trivial = a refused and an accepted name sharing their first part, and an "
        "anonymous window absorbing >= 2 names. Distinct = canonical JSON.")
BUDGET = {"quick": (16, 1500), "thorough": (16, 40000)}
ESSENTIAL = ["identical_twin_window_refused", "int_part_above_256", "refused_for_non_name_reason", "refused_conflict", "accepted_shared_first_part", "anon_absorbs>=2", "anon_conflict_refused",
             "anon_conflict_not_last", "str_vs_int", "invalid_name_refused", "prefix_longer_new", "prefix_shorter_new", "depth3"]
ASSUMPTIONS = [
    "refusals for reasons other than names are excluded by construction (ample address space, implicit addresses) or tracked by the model (frozen parent, window already added)",
]

PARTS = ["a", "b", "ab", "0", 0, 1, 300, 300, "300", 1000]


class Res(wiring.Component):
    def __init__(self):
        super().__init__({})


def _name():
    part = st.sampled_from(PARTS)
    return st.one_of(st.lists(part, min_size=1, max_size=1), st.lists(part, min_size=1, max_size=3),
                     st.lists(part, min_size=2, max_size=3), st.lists(part, min_size=3, max_size=6))


def _bad_name():
    return st.sampled_from(["empty_tuple", "empty_str", "neg", "float", "empty_part", "neg_part", "list"])


@st.composite
def _spec(draw, tier):
    nmaps = draw(st.integers(2, 5))
    mi = st.integers(0, nmaps - 1)
    from vlib.gens import weighted
    op = weighted(
        (6, st.tuples(st.just("res"), mi, _name()).map(list)),
        (2, st.tuples(st.just("win"), mi, mi, _name()).map(list)),
        (4, st.tuples(st.just("win"), mi, mi, st.none()).map(list)),
        (1, st.tuples(st.just("bad"), mi, _bad_name()).map(list)),
        # refused for a reason other than the name (address out of bounds): must reserve nothing
        (1, st.tuples(st.just("res_oob"), mi, _name()).map(list)),
        (1, st.tuples(st.just("win_oob"), mi, mi, st.one_of(st.none(), _name())).map(list)),
        # two fresh maps holding the same n names, both added anonymously, one right after the other
        (1, st.tuples(st.just("twins"), mi, st.integers(2, 12), st.sampled_from(["t", "u", "a"])).map(list)),
        # one window map shared by two parents: added anonymously to a fresh, still empty map that then
        # grows, and afterwards anonymously to map mi (its names are its own, not the first parent's)
        (1, st.tuples(st.just("shared"), mi, st.integers(1, 4), st.sampled_from(["s", "a", 0])).map(list)),
    )
    lo = draw(st.integers(3, 30))
    return {"nmaps": nmaps, "ops": draw(st.lists(op, min_size=lo, max_size=lo + 10)),
            # per-op spelling of name parts (bit p set: part p is an int/str *subclass* instance that
            # equals the plain part - IntEnum / bool / str-Enum members)
            "spell": draw(st.lists(st.sampled_from([0, 0, 0, 0, 1, 2, 3, 5, 7]), min_size=8, max_size=8))}


def strategy(tier):
    return _spec(tier)


BAD = {"empty_tuple": (), "empty_str": "", "neg": (-1,), "float": (1.5,), "empty_part": ("a", ""),
       "neg_part": ("a", -2), "list": ["a"]}


import enum as _enum

_MEMBERS = {}


def _member(x):
    """An enum member (int or str subclass instance) equal to the plain part ``x``."""
    key = (type(x).__name__, x)
    if key not in _MEMBERS:
        if isinstance(x, int):
            _MEMBERS[key] = bool(x) if x in (0, 1) and len(_MEMBERS) % 2 else _enum.IntEnum(f"Idx{x}", {"M": x}).M
        else:
            _MEMBERS[key] = _enum.Enum(f"Part{len(_MEMBERS)}", {"M": x}, type=str).M
    return _MEMBERS[key]


def fresh(name, spell=0):
    """The name as a tuple whose integer parts are *new* int objects and whose string parts are new
    str objects (CPython shares only small ints and literals; names computed independently at run
    time are not the same objects). With ``spell`` some parts are enum members equal to the part."""
    out = []
    for p, x in enumerate(name):
        if (spell >> p) & 1:
            out.append(_member(x))
        elif isinstance(x, int):
            out.append(int(str(x)))
        else:
            out.append("".join(list(str(x))))
    return tuple(out)


def conflict(n1, n2):
    """Equal, or one a prefix of the other (parts compared with Python ==, so '0' != 0)."""
    k = min(len(n1), len(n2))
    return n1[:k] == n2[:k]


def _snapshot(m):
    return ([(id(r), tuple(n), rng) for r, n, rng in m.resources()],
            [(id(w), None if n is None else tuple(n), rng) for w, n, rng in m.windows()],
            [(id(i.resource), tuple(tuple(p) for p in i.path), i.start, i.end) for i in m.all_resources()])


def check(spec, stats):
    n = spec["nmaps"]
    maps = [MemoryMap(addr_width=24 - 4 * i, data_width=8) for i in range(n)]
    visible = [[] for _ in range(n)]       # names visible in map i (tuples)
    frozen = [False] * n
    children = [set() for _ in range(n)]
    accepted_first, refused_first = set(), set()
    depth = [0] * n

    spell = spec.get("spell", [0])
    for k, op in enumerate(spec["ops"]):
        where = f"op#{k} {op}"
        sp = spell[k % len(spell)]
        i = op[1]
        m = maps[i]
        before = [_snapshot(x) for x in maps]

        def refused_ok(e):
            if [_snapshot(x) for x in maps] != before:
                raise Violation("C18/refusal-changed-state", f"{where}: raised {type(e).__name__} but "
                                f"resources()/windows()/all_resources() changed")

        if op[0] == "bad":
            try:
                m.add_resource(Res(), name=BAD[op[2]], size=1)
            except Exception as e:
                refused_ok(e)
                stats.label("invalid_name_refused")
            else:
                raise Violation("C18/invalid-name-accepted", f"{where}: name {BAD[op[2]]!r} accepted")
            continue
        if op[0] == "twins":
            if frozen[i] or m.addr_width < 16:
                continue        # small maps could run out of address space (never the reason for a refusal here)
            names = [(op[3], kk) for kk in range(op[2])]
            for copy in (0, 1):
                child = MemoryMap(addr_width=4, data_width=8)
                for nm in names:
                    child.add_resource(Res(), name=tuple(nm), size=1)
                conflicts = [(a, b) for a in names for b in visible[i] if conflict(a, b)]
                before = [_snapshot(x) for x in maps]
                try:
                    m.add_window(child)
                    ok = True
                except Exception as e:
                    ok = False
                    if [_snapshot(x) for x in maps] != before:
                        raise Violation("C18/refusal-changed-state", f"{where}: refused twin changed state")
                if ok and conflicts:
                    raise Violation("C18/conflict-accepted", f"{where}: anonymous window #{copy + 1} with names {names[:3]}... "
                                    f"accepted although they conflict with visible names")
                if not ok and not conflicts:
                    raise Violation("C18/legal-name-refused", f"{where}: anonymous window #{copy + 1} refused without a conflict")
                if ok:
                    visible[i].extend(tuple(nm) for nm in names)
                elif copy == 1 and op[2] >= 9:
                    stats.label("identical_twin_window_refused")
            continue
        if op[0] == "shared":
            if frozen[i] or m.addr_width < 16:
                continue
            w = MemoryMap(addr_width=3, data_width=8)
            wnames = [(op[3], "w", kk) for kk in range(op[2])]
            for nm in wnames:
                w.add_resource(Res(), name=fresh(nm), size=1)
            p1 = MemoryMap(addr_width=8, data_width=8)
            p1.add_window(w)                      # first thing the empty map receives
            later = [(op[3], "p", 0), ("q",), (1, 1)]
            for nm in later:
                p1.add_resource(Res(), name=fresh(nm), size=1)
            stats.label("window_shared_by_two_parents")
            for step, (what, names) in enumerate([("win", wnames)] + [("res", [nm]) for nm in later]):
                conflicts = [(a, b) for a in names for b in visible[i] if conflict(a, b)]
                before = [_snapshot(x) for x in maps]
                try:
                    if what == "win":
                        m.add_window(w)
                    else:
                        m.add_resource(Res(), name=fresh(names[0]), size=1)
                    ok = True
                except Exception as e:
                    ok = False
                    if [_snapshot(x) for x in maps] != before:
                        raise Violation("C18/refusal-changed-state", f"{where}: refused call changed state")
                if ok and conflicts:
                    raise Violation("C18/conflict-accepted", f"{where} step {step}: {names} accepted although {conflicts}")
                if not ok and not conflicts:
                    raise Violation("C18/legal-name-refused", f"{where} step {step}: {what} {names} refused although nothing "
                                    f"visible in the map conflicts (visible {visible[i]}); the window is shared with "
                                    f"another parent holding {later}")
                if ok:
                    visible[i].extend(tuple(nm) for nm in names)
            continue
        if op[0] in ("res_oob", "win_oob"):
            oob = 1 << m.addr_width
            try:
                if op[0] == "res_oob":
                    m.add_resource(Res(), name=tuple(op[2]), size=1, addr=oob)
                else:
                    if op[2] <= i:
                        continue
                    if op[3] is None:
                        m.add_window(maps[op[2]], addr=oob)
                    else:
                        m.add_window(maps[op[2]], name=tuple(op[3]), addr=oob)
            except Exception as e:
                refused_ok(e)
                stats.label("refused_for_non_name_reason")
            else:
                raise Violation("C18/out-of-bounds-accepted", f"{where}: accepted at address {oob:#x}")
            continue
        if op[0] == "res":
            name = fresh(op[2], sp)
            stats.label("enum_typed_part", sp != 0)
            new = [name]
            other_reason = frozen[i]
            call = lambda: m.add_resource(Res(), name=name, size=1)
        else:
            j = op[2]
            if j <= i:
                continue
            name = None if op[3] is None else fresh(op[3], sp)
            new = list(visible[j]) if name is None else [name]
            other_reason = frozen[i] or j in children[i]
            if name is None:
                call = lambda: m.add_window(maps[j])
            else:
                call = lambda: m.add_window(maps[j], name=name)
        conflicts = [(a, b) for a in new for b in visible[i] if conflict(a, b)]
        if any(isinstance(x, int) and x > 256 for a, b in conflicts for x in a):
            stats.label("int_part_above_256")
        try:
            call()
            ok = True
        except Exception as e:
            ok = False
            err = e
        if ok:
            if conflicts or other_reason:
                raise Violation("C18/conflict-accepted", f"{where}: accepted although "
                                f"{'frozen/duplicate' if other_reason else conflicts} (visible {visible[i]})")
            visible[i].extend(new)
            for a in new:
                accepted_first.add(repr(a[0]))
            if op[0] == "win":
                frozen[op[2]] = True
                children[i].add(op[2])
                depth[i] = max(depth[i], depth[op[2]] + 1)
                if depth[i] >= 2:
                    stats.label("depth3")
                if name is None:
                    stats.label("anon_window_ok")
                    if len(new) >= 2:
                        stats.label("anon_absorbs>=2")
        else:
            if not conflicts and not other_reason:
                raise Violation("C18/legal-name-refused", f"{where}: refused ({type(err).__name__}: {str(err)[:200]}) "
                                f"but no visible name conflicts (visible {visible[i]})")
            refused_ok(err)
            if conflicts and not other_reason:
                stats.label("refused_conflict")
                for a, b in conflicts:
                    refused_first.add(repr(a[0]))
                    stats.label("prefix_longer_new", len(a) > len(b))
                    stats.label("prefix_shorter_new", len(a) < len(b))
                if name is None and op[0] == "win":
                    stats.label("anon_conflict_refused")
                    bad_names = {a for a, _ in conflicts}
                    if new[-1] not in bad_names:
                        stats.label("anon_conflict_not_last")
        # "0" vs 0 co-visible somewhere at the same position with a common prefix
        for a in new:
            for b in visible[i]:
                kk = min(len(a), len(b))
                if any(str(a[x]) == str(b[x]) and a[x] != b[x] for x in range(kk)) and \
                        all(str(a[x]) == str(b[x]) for x in range(kk)):
                    stats.label("str_vs_int")

    for i, m in enumerate(maps):
        paths = [tuple(tuple(p) for p in info.path) for info in m.all_resources()]
        if len(set(paths)) != len(paths):
            dup = sorted({p for p in paths if paths.count(p) > 1})
            raise Violation("C18/duplicate-paths", f"map {i}: all_resources() reports duplicate paths {dup}")
    if accepted_first & refused_first:
        stats.label("accepted_shared_first_part")
    stats.add("ops", len(spec["ops"]))
    stats.nontrivial = stats.has("accepted_shared_first_part") and stats.has("anon_absorbs>=2")
