"""C19 — every accepted component elaborates, terminates, and does so repeatably."""
# amaranth: UnusedElaboratable=no
import signal
from hypothesis import strategies as st

from amaranth.back import rtlil

from vlib.common import Violation, deliberate_refusal, classify_exception
from vlib import components
import vlib.sim  # noqa: F401  (silences UnusedElaboratable)

RULE = ("One of 12 component classes is drawn, then its parameters (well-typed, ranges include "
        "boundary and invalid values; CSR layouts unaligned/padded with every sharing limit). The "
        "component is constructed and elaborated three times to RTLIL under a watchdog of 60 s CPU time. "
        "Non-trivial = construction accepted, all three elaborations ran, and the component has >= 2 "
        "sub-objects (registers, windows, initiators, sources, pins, fields). Distinct = canonical JSON.")
BUDGET = {"quick": (16, 400), "thorough": (16, 6000)}
ESSENTIAL = ["cls:" + c for c in components.CLASSES] + ["refused_at_construction", "packed:ok", "packed:refused", "twin_add_compared"]
ASSUMPTIONS = [
    "parameters are well-typed (ints for widths/counts, strings for modes/features, shape-like objects for shapes)",
    "deliberate refusal = ValueError/TypeError raised by an explicit `raise` statement inside amaranth_soc or amaranth whose raised class is the class caught",
    "hardware identity is judged on the RTLIL text produced by amaranth.back.rtlil.convert with an explicit port list",
    "name parts never contain '__' (submodule names join parts with '__')",
]
WATCHDOG_S = 60


def strategy(tier):
    return components.component_spec()


class _Timeout(BaseException):
    pass


def _alarm(signum, frame):
    raise _Timeout()


def _site(e):
    if isinstance(e, RecursionError) and classify_exception(e) is None:
        return "RecursionError@amaranth-internal"      # recursion depth exceeded while Amaranth walks the design
    c = classify_exception(e)
    if c is not None:
        return c[0][len("crash/"):]
    import traceback
    tb = traceback.extract_tb(e.__traceback__)
    return f"{type(e).__name__}@{tb[-1].filename.split('/')[-1]}:{tb[-1].name}" if tb else type(e).__name__


def _map_snapshot(mm):
    return (mm.addr_width, mm.data_width, mm.alignment,
            [(id(r), tuple(n), rng) for r, n, rng in mm.resources()],
            [(id(w), None if n is None else tuple(n), rng) for w, n, rng in mm.windows()],
            [(id(i.resource), tuple(tuple(x) for x in i.path), i.start, i.end, i.width)
             for i in mm.all_resources()])


def metadata(comp):
    out = {"members": repr(comp.signature.members)}
    for attr in ("bus", "wb_bus", "csr_bus"):
        b = getattr(comp, attr, None)
        if b is None:
            continue
        try:
            mm = b.memory_map
        except AttributeError:
            continue
        out[attr] = _map_snapshot(mm)
    for attr in ("pin_count", "input_stages", "size", "writable", "init"):
        if hasattr(comp, attr):
            try:
                out[attr] = repr(list(getattr(comp, attr))) if attr == "init" and not isinstance(getattr(comp, attr), int) else repr(getattr(comp, attr))
            except TypeError:
                out[attr] = repr(getattr(comp, attr))
    return out


def check(spec, stats):
    cls = spec["cls"]
    stats.label("cls:" + cls)
    # the watchdog counts CPU time of this process, not wall-clock time: a loaded machine must not
    # turn a slow elaboration into a verdict
    import time
    old = signal.signal(signal.SIGVTALRM, _alarm)
    signal.setitimer(signal.ITIMER_VIRTUAL, WATCHDOG_S)
    t0 = time.process_time()
    try:
        _check(spec, stats, cls)
    except _Timeout:
        raise Violation(f"C19/timeout/{cls}", f"no termination within {WATCHDOG_S}s of CPU time")
    finally:
        signal.setitimer(signal.ITIMER_VIRTUAL, 0)
        signal.signal(signal.SIGVTALRM, old)
        dt = time.process_time() - t0
        stats.label("case_cpu>10s", dt > 10)
        stats.label("case_cpu>30s", dt > 30)


def _check_packed(spec, stats):
    """Exhaustive family: three/four rw registers of given word sizes packed with given gaps (not
    naturally aligned), finite sharing limit: elaboration must terminate, twice, with the same
    outcome (hardware, or a deliberate refusal)."""
    from amaranth.hdl import Fragment
    from amaranth_soc import csr
    from amaranth_soc.memory import MemoryMap
    from vlib.gens import MockReg
    p = spec["p"]
    cur, ranges = 0, []
    for sz, g in zip(p["sizes"], p["gaps"]):
        ranges.append((cur + g, sz))
        cur += g + sz
    mm = MemoryMap(addr_width=max(1, (cur - 1).bit_length()), data_width=p["dw"])
    for i, (a, sz) in enumerate(ranges):
        mm.add_resource(MockReg(sz * p["dw"], "rw"), name=(f"r{i}",), addr=a, size=sz)
    mux = csr.Multiplexer(mm, shadow_overlaps=p["ov"])
    outcomes = []
    for k in range(2):
        try:
            Fragment.get(mux, None)
            outcomes.append("ok")
        except RecursionError as e:
            raise Violation(f"C19/elab/{_site(e)}", f"packed layout {ranges} shadow_overlaps={p['ov']}: "
                            f"RecursionError in elaboration #{k + 1}")
        except Exception as e:
            if deliberate_refusal(e):
                outcomes.append("refused")
            elif classify_exception(e) is None:
                raise
            else:
                raise Violation(f"C19/elab/{_site(e)}", f"packed layout {ranges} shadow_overlaps={p['ov']}: "
                                f"{type(e).__name__}: {str(e)[:200]}")
    if outcomes[0] != outcomes[1]:
        raise Violation("C19/repeatability/mux_packed", f"{ranges} ov={p['ov']}: outcomes {outcomes}")
    stats.label("packed:" + outcomes[0])
    stats.nontrivial = True


def exhaustive(tier):
    import itertools
    sizes = [1, 2, 3, 5, 6, 7]
    gaps = [0, 1, 2, 3]

    def gen(n, ovs, gaps=gaps):
        for sz in itertools.product(sizes, repeat=n):
            for gp in itertools.product(gaps, repeat=n):
                for ov in ovs:
                    yield {"cls": "mux_packed", "p": {"sizes": list(sz), "gaps": list(gp), "ov": ov, "dw": 1}}
    if tier == "quick":
        parts = [("mux_packed_3regs_sizes{1,2,3,5,6,7}_gaps0-2_ov{1,2}", gen(3, [1, 2], [0, 1, 2]))]
    else:
        parts = [("mux_packed_3regs_sizes{1,2,3,5,6,7}_gaps0-3_ov{0,1,2}", gen(3, [0, 1, 2]))]
    if tier == "thorough":
        parts.append(("mux_packed_4regs_sizes{1,2,3,5,6,7}_gaps0-3_ov{1,2}", gen(4, [1, 2])))
    return parts


def _check_many(spec, stats):
    """Scale family: a multiplexer over n one-word registers (all sharing one shadow chunk when the
    sharing limit is None), or one register of n words: must elaborate (twice, to RTLIL once)."""
    from amaranth.hdl import Fragment
    from amaranth_soc import csr
    from amaranth_soc.memory import MemoryMap
    from vlib.gens import MockReg
    p = spec["p"]
    n, dw = p["n"], p["dw"]
    if p["shape"] in ("csrdec", "wbdec"):
        return _check_many_windows(spec, stats)
    mm = MemoryMap(addr_width=max(1, (n - 1).bit_length()), data_width=dw)
    if p["shape"] == "many":
        regs = [MockReg(dw, p["acc"]) for _ in range(n)]
        for i, r in enumerate(regs):
            mm.add_resource(r, name=(f"r{i}",), size=1)
    else:
        regs = [MockReg(dw * n, p["acc"])]
        mm.add_resource(regs[0], name=("wide",), size=n)
    mux = csr.Multiplexer(mm, shadow_overlaps=p["ov"])
    ports = components.flat_signals(mux)
    for r in regs:
        ports += components.flat_signals(r)
    for k in range(2):
        try:
            Fragment.get(mux, None)
            if k == 0:
                rtlil.convert(mux, ports=ports)
        except RecursionError as e:
            raise Violation(f"C19/elab/{_site(e)}", f"multiplexer over {p['shape']} x{n} ({p['acc']}, {dw}-bit bus, "
                            f"shadow_overlaps={p['ov']}): RecursionError in elaboration #{k + 1}")
        except Exception as e:
            if classify_exception(e) is None:
                raise
            raise Violation(f"C19/elab/{_site(e)}", f"multiplexer over {p['shape']} x{n}: {type(e).__name__}: {str(e)[:200]}")
    stats.label("scale:" + p["shape"])
    stats.nontrivial = True


def _check_many_windows(spec, stats):
    """Scale family: a decoder over n two-address subordinates: must elaborate (twice), convert to
    RTLIL and be accepted by the simulator."""
    from amaranth.hdl import Fragment
    from amaranth.sim import Simulator
    from amaranth_soc import csr, wishbone
    from amaranth_soc.memory import MemoryMap
    p = spec["p"]
    n, dw = p["n"], p["dw"]
    aw = (2 * n - 1).bit_length()
    feat = p.get("feat", [])
    if p["shape"] == "csrdec":
        dec = csr.Decoder(addr_width=aw, data_width=dw)
        subs = [csr.Interface(addr_width=1, data_width=dw, path=(f"s{i}",)) for i in range(n)]
    else:
        dec = wishbone.Decoder(addr_width=aw, data_width=dw, features=feat)
        subs = [wishbone.Interface(addr_width=1, data_width=dw, features=feat, path=(f"s{i}",)) for i in range(n)]
    for s_ in subs:
        s_.memory_map = MemoryMap(addr_width=1, data_width=dw)
        dec.add(s_)
    ports = components.flat_signals(dec)
    for s_ in subs:
        ports += components.flat_signals(s_)
    for k, (what, fn) in enumerate((("elaboration #1", lambda: Fragment.get(dec, None)), ("elaboration #2", lambda: Fragment.get(dec, None)),
                                    ("conversion to RTLIL", lambda: rtlil.convert(dec, ports=ports)),
                                    ("building the simulator", lambda: Simulator(dec)))):
        try:
            fn()
        except RecursionError as e:
            raise Violation(f"C19/elab/{_site(e)}", f"{p['shape']} over {n} windows ({dw}-bit bus, features {feat}): "
                            f"RecursionError in {what}")
        except Exception as e:
            if classify_exception(e) is None:
                raise
            raise Violation(f"C19/elab/{_site(e)}", f"{p['shape']} over {n} windows: {what}: {type(e).__name__}: {str(e)[:200]}")
    stats.label("scale:" + p["shape"])
    stats.nontrivial = True


def _structure(text):
    """RTLIL with every identifier blanked and the lines sorted: what is left is the structure of the
    netlist (cells, widths, connections per kind), insensitive to how internal signals are named."""
    import re
    lines = [re.sub(r"(\\[^\s]+|\$[0-9]+)", "ID", l.strip()) for l in text.splitlines() if not l.lstrip().startswith("attribute")]
    return sorted(lines)


def _extend(cls, comp):
    """One more add() on a decoder / arbiter / multiplexer map; returns a comparable outcome."""
    from amaranth_soc import csr, wishbone
    from amaranth_soc.memory import MemoryMap
    from vlib.gens import MockReg
    try:
        if cls == "csr_decoder":
            sub = csr.Interface(addr_width=1, data_width=comp.bus.data_width, path=("late",))
            sub.memory_map = MemoryMap(addr_width=1, data_width=comp.bus.data_width)
            return ("ok", comp.add(sub, name=("late_window",)))
        if cls == "wb_decoder":
            gb = (comp.bus.data_width // comp.bus.granularity).bit_length() - 1
            sub = wishbone.Interface(addr_width=0, data_width=comp.bus.data_width, granularity=comp.bus.granularity, path=("late",))
            sub.memory_map = MemoryMap(addr_width=max(1, gb), data_width=comp.bus.granularity)
            return ("ok", comp.add(sub, name=("late_window",)))
        if cls == "wb_arbiter":
            feat = set(f.value for f in comp.bus.features)
            intr = wishbone.Interface(addr_width=comp.bus.addr_width, data_width=comp.bus.data_width,
                                      granularity=comp.bus.data_width, features=sorted(feat & {"err", "rty"}), path=("late",))
            return ("ok", comp.add(intr))
        if cls == "mux":
            # three more registers of 1, 2 and 3 words, packed (so they share shadow chunks with their neighbours)
            dw = comp.bus.data_width
            return ("ok", [comp.bus.memory_map.add_resource(MockReg(k * dw, "rw"), name=(f"late_reg{k}",), size=k) for k in (1, 2, 3)])
    except (ValueError, TypeError) as e:
        return ("refused", type(e).__name__)
    return None


def _still_extensible(spec, built, stats, cls):
    """Elaboration must not alter the component's metadata: an add() that a never-elaborated twin
    accepts (or refuses) must have the same outcome on the instance that was elaborated three times."""
    if cls not in ("csr_decoder", "wb_decoder", "wb_arbiter", "mux"):
        return
    twin = components.build(spec)
    a = _extend(cls, built.comp)
    b = _extend(cls, twin.comp)
    if a != b:
        raise Violation(f"C19/purity/add-after-elaboration/{cls}", f"after three elaborations add() gives {a}, a "
                        f"never-elaborated twin built from the same parameters gives {b}")
    stats.label("twin_add_compared")
    if a and a[0] == "ok":
        # and the extended component still elaborates - to the same hardware as the extended twin,
        # which is elaborated for the first time now (or both are refused alike)
        outs = []
        for who, x in (("elaborated instance", built), ("never-elaborated twin", twin)):
            try:
                outs.append(("ok", rtlil.convert(x.comp, ports=x.ports)))
            except Exception as e:
                if deliberate_refusal(e):
                    outs.append(("refused", type(e).__name__))
                    continue
                if classify_exception(e) is None:
                    raise
                raise Violation(f"C19/elab-after-add/{_site(e)}", f"{cls}: elaboration of the {who} after a further add() "
                                f"failed: {type(e).__name__}: {str(e)[:200]}")
        if outs[0][0] != outs[1][0] or (outs[0] != outs[1] if outs[0][0] == "refused" else _structure(outs[0][1]) != _structure(outs[1][1])):
            raise Violation(f"C19/purity/elab-after-add-differs/{cls}", f"after further add() calls the instance that had "
                            f"been elaborated before gives {outs[0][0]} ({outs[0][1][:80] if outs[0][0] == 'refused' else len(outs[0][1])}), "
                            f"a never-elaborated twin in the same state gives {outs[1][0]} "
                            f"({outs[1][1][:80] if outs[1][0] == 'refused' else len(outs[1][1])})")
        stats.label("extended_twin_hardware_compared")


def _two_in_one_design(spec, built, stats, cls, text):
    """A second instance built from the same parameters elaborates too, and both fit into one
    design (instances own their signals)."""
    from amaranth import Module
    twin = components.build(spec)
    try:
        t2 = rtlil.convert(twin.comp, ports=twin.ports)
    except Exception as e:
        if classify_exception(e) is None:
            raise
        raise Violation(f"C19/elab-second-instance/{_site(e)}", f"{cls}: a second instance built from the same parameters "
                        f"failed to elaborate: {type(e).__name__}: {str(e)[:200]}")
    # two instances are compared by netlist structure only (instance-unique internal names would be legitimate)
    if _structure(t2) != _structure(text):
        raise Violation(f"C19/repeatability/second-instance/{cls}", f"a second instance built from the same parameters "
                        f"elaborates to a structurally different netlist (RTLIL lengths {len(text)} vs {len(t2)})")
    m = Module()
    m.submodules.first = built.comp
    m.submodules.second = twin.comp
    try:
        rtlil.convert(m, ports=list(built.ports) + list(twin.ports))
    except Exception as e:
        if classify_exception(e) is None:
            raise
        raise Violation(f"C19/elab-two-instances/{_site(e)}", f"{cls}: a design holding two instances built from the same "
                        f"parameters failed to elaborate: {type(e).__name__}: {str(e)[:300]}")
    stats.label("two_instances_in_one_design")


def _check(spec, stats, cls):
    if cls == "mux_packed":
        return _check_packed(spec, stats)
    if cls == "mux_many":
        return _check_many(spec, stats)
    try:
        built = components.build(spec)
    except Exception as e:
        if deliberate_refusal(e):
            stats.label("refused_at_construction")
            return
        if classify_exception(e) is None:
            raise          # the harness itself failed: no verdict
        raise Violation(f"C19/construct/{_site(e)}", f"{cls}: construction failed with an internal "
                        f"error {type(e).__name__}: {str(e)[:300]}")
    comp = built.comp
    meta0 = metadata(comp)
    texts = []
    for k in range(3):
        try:
            text = rtlil.convert(comp, ports=built.ports)
        except RecursionError as e:
            raise Violation(f"C19/elab/{_site(e)}", f"{cls}: elaboration #{k + 1} hit RecursionError")
        except Exception as e:
            if k == 0 and deliberate_refusal(e):
                stats.label("refused_at_elaboration")
                if metadata(comp) != meta0:
                    raise Violation("C19/purity/refused-elab-changed-metadata", f"{cls}")
                # a refused elaboration must be refused again, the same deliberate way
                for again in (2, 3):
                    try:
                        rtlil.convert(comp, ports=built.ports)
                    except Exception as e2:
                        if deliberate_refusal(e2) and type(e2) is type(e):
                            continue
                        if classify_exception(e2) is None:
                            raise
                        raise Violation(f"C19/re-elab-after-refusal/{_site(e2)}", f"{cls}: elaboration #1 was refused "
                                        f"({type(e).__name__}), elaboration #{again} failed with {type(e2).__name__}: {str(e2)[:200]}")
                    else:
                        raise Violation(f"C19/re-elab-after-refusal/accepted/{cls}", f"elaboration #1 was refused "
                                        f"({type(e).__name__}: {str(e)[:120]}), elaboration #{again} succeeded")
                return
            if classify_exception(e) is None:
                raise
            which = "elab" if k == 0 else "re-elab"
            raise Violation(f"C19/{which}/{_site(e)}", f"{cls}: elaboration #{k + 1} failed with "
                            f"{type(e).__name__}: {str(e)[:300]}")
        texts.append(text)
        meta = metadata(comp)
        if meta != meta0:
            diff = [k2 for k2 in meta0 if meta0[k2] != meta.get(k2)]
            raise Violation(f"C19/purity/{cls}", f"elaboration #{k + 1} changed metadata: {diff}")
    if not (texts[0] == texts[1] == texts[2]):
        which = 2 if texts[0] != texts[1] else 3
        raise Violation(f"C19/repeatability/{cls}", f"elaboration #{which} produced different RTLIL "
                        f"than #1 (lengths {[len(t) for t in texts]})")
    stats.label("elaborated_3x")
    stats.label("ok:" + cls)
    _two_in_one_design(spec, built, stats, cls, texts[0])
    _still_extensible(spec, built, stats, cls)
    stats.add("rtlil_bytes", len(texts[0]))
    stats.nontrivial = built.subobjects >= 2


def pinned():
    # scale: several hundred registers behind one multiplexer / one register of several hundred words
    out = []
    for shape, n, acc, ov in (("many", 300, "rw", None), ("many", 700, "rw", None), ("many", 700, "r", 0),
                              ("wide", 300, "w", None), ("wide", 300, "rw", None)):
        out.append((f"scale-{shape}-{n}-{acc}-ov{ov}", {"cls": "mux_many", "p": {"shape": shape, "n": n, "dw": 8, "acc": acc, "ov": ov}}))
    # naturally aligned registers that only a very high address bit tells apart, finite sharing limit
    # (the shadow has to grow to 2**(k+1) chunks' worth of address bits before the limit is met)
    for k, slots, ov in ((33, [0, 1], 0), (40, [0, 2, 3], 1), (13, [0, 1, 2, 4], 0), (31, [1, 3], 0)):
        regs, cur = [], 0
        for p_ in slots:
            regs.append({"w": 8, "acc": "rw", "mode": "gap", "gap": (p_ << k) - cur, "pad": 0})
            cur = (p_ << k) + 1
        out.append((f"aliased-high-bit-{k}-ov{ov}", {"cls": "mux", "p": {"dw": 8, "al": 0, "regs": regs, "extra_aw": 0, "family": "aliased", "ov": ov}}))
    # decoders over several hundred windows
    for shape, n, feat in (("csrdec", 300, []), ("csrdec", 700, []), ("wbdec", 300, ["err", "stall"]), ("wbdec", 700, ["err", "rty", "stall"])):
        out.append((f"scale-{shape}-{n}", {"cls": "mux_many", "p": {"shape": shape, "n": n, "dw": 8, "feat": feat}}))
    return out
