"""C20 — ports have the direction their role implies; signatures round-trip."""
# amaranth: UnusedElaboratable=no
from hypothesis import strategies as st

from amaranth import Module, Shape, Value
from amaranth.lib import wiring
from amaranth.lib.wiring import In, Out

from amaranth_soc import csr, wishbone, event, gpio

from vlib.common import Violation, deliberate_refusal
from vlib import components, gens
import vlib.sim  # noqa: F401

RULE = ("Half of the cases draw a component (12 classes, generated parameters) and connect() the "
        "complementary standard interface to each bus-facing port; the other half draw a pair of "
        "parameter tuples for one of the six signature classes (second = first with probability "
        "1/2, else redrawn; enum members vs strings; shapes vs same-width enums) and check create() "
        "round trip, equality <=> equal defining parameters in both orders, member presence, "
        "widths and flows. Non-trivial = an accepted component with a bus port, or a signature "
        "pair whose parameters differ. Distinct = canonical JSON.")
BUDGET = {"quick": (16, 250), "thorough": (16, 6000)}
ESSENTIAL = ["port:csr_target", "port:wb_target", "port:wb_initiator_out", "sig:csr", "sig:element",
             "sig:fieldport", "sig:wb", "sig:source", "sig:pin", "pair_equal", "pair_differs", "mixed_feature_spelling", "width>256"]
ASSUMPTIONS = [
    "only same-class signature comparisons are asserted",
    "FieldPort signatures are equal when Shape.cast() of their shapes are equal (as the docstring says)",
]

ACC = ["r", "w", "rw"]
FACC = ["r", "w", "rw", "nc"]


def _sig_params(cls):
    if cls == "csr":
        return st.tuples(st.one_of(st.integers(1, 12), st.sampled_from([257, 300])),
                         st.sampled_from([1, 2, 3, 8, 8, 16, 32, 257, 300])).map(list)
    if cls == "element":
        return st.tuples(st.one_of(st.integers(0, 12), st.sampled_from([256, 257, 300, 320, 1000])),
                         st.sampled_from(ACC), st.booleans()).map(list)
    if cls == "fieldport":
        return st.tuples(gens.shape_strategy(True, 4), st.sampled_from(FACC), st.booleans()).map(list)
    if cls == "wb":
        return st.tuples(st.integers(0, 5), st.sampled_from([8, 16, 32, 64]),
                         st.sampled_from([None, 8, 16, 32, 64]), gens.wb_features(),
                         st.sampled_from([False, True, "mixed", "mixed", "tuple", "set", "frozenset", "gen", "iter", "map", "keys"])).map(list)
    if cls == "source":
        return st.tuples(st.sampled_from(["level", "rise", "fall"]), st.booleans()).map(list)
    return st.just([])


@st.composite
def _sig_spec(draw):
    cls = draw(st.sampled_from(["csr", "element", "fieldport", "wb", "wb", "source", "pin"]))
    a = draw(_sig_params(cls))
    mode = draw(st.sampled_from(["same", "fresh", "perturb", "sign"]))
    if mode == "sign" and cls == "fieldport" and a[0][0] in ("u", "s") and a[0][1] >= 1:
        b = [["s" if a[0][0] == "u" else "u", a[0][1]], a[1], a[2]]     # same width and access, other signedness
    elif mode == "same" or mode == "sign" or not a:
        b = list(a)
        if a and isinstance(a[-1], bool):
            b[-1] = draw(st.booleans())    # same parameters, possibly other spelling (str vs enum)
        elif cls == "wb":
            b[-1] = draw(st.sampled_from([False, True, "mixed", "tuple", "set", "frozenset", "gen", "iter", "map", "keys"]))
    elif mode == "fresh":
        b = draw(_sig_params(cls))
    else:
        fresh = draw(_sig_params(cls))
        k = draw(st.integers(0, len(a) - 1))
        b = list(a)
        b[k] = fresh[k]
    return {"kind": "sig", "cls": cls, "a": a, "b": b, "tamper": draw(st.sampled_from(gens.FEATURE_TAMPER))}


def strategy(tier):
    return st.one_of(components.component_spec().map(lambda s: dict(s, kind="port")), _sig_spec())


# ------------------------------------------------------------------------------------------

stats_mixed = [False, False]


def _make_sig(cls, p, tamper=None):
    """Returns (signature or None if params invalid, defining-parameter key)."""
    fresh = lambda v: int(str(v))       # a new int object (CPython only shares small ints)
    if cls == "csr":
        return csr.Signature(addr_width=fresh(p[0]), data_width=fresh(p[1])), (p[0], p[1])
    if cls == "element":
        acc = csr.Element.Access(p[1]) if p[2] else p[1]
        return csr.Element.Signature(fresh(p[0]), acc), (p[0], p[1])
    if cls == "fieldport":
        acc = csr.FieldPort.Access(p[1]) if p[2] else p[1]
        shp = gens.shape_of(p[0])
        c = Shape.cast(shp)
        return csr.FieldPort.Signature(shp, acc), (c.width, c.signed, p[1])
    if cls == "wb":
        aw, dw, g, feat, as_enum = p
        if g is not None and g > dw:
            g = dw
        f = gens.spell_features(feat, as_enum)
        if as_enum not in (False, True) and len(feat) >= 2:
            stats_mixed[0] = True
        if as_enum in ("gen", "iter", "map") and feat:
            stats_mixed[1] = True
        kw = {} if g is None else {"granularity": g}
        sig = wishbone.Signature(addr_width=aw, data_width=dw, features=f, **kw)
        gens.tamper_features(f, sig, tamper)
        return (sig, (aw, dw, g if g is not None else dw, tuple(sorted(feat))))
    if cls == "source":
        t = event.Source.Trigger(p[0]) if p[1] else p[0]
        return event.Source.Signature(trigger=t), (p[0],)
    return gpio.PinSignature(), ()


def _expect_members(cls, key):
    """{name: (flow, width)} from the parameters."""
    if cls == "csr":
        aw, dw = key
        return {"addr": (Out, aw), "r_data": (In, dw), "r_stb": (Out, 1), "w_data": (Out, dw), "w_stb": (Out, 1)}
    if cls == "element":
        w, acc = key
        m = {}
        if "r" in acc:
            m.update(r_data=(In, w), r_stb=(Out, 1))
        if "w" in acc:
            m.update(w_data=(Out, w), w_stb=(Out, 1))
        return m
    if cls == "fieldport":
        w = key[0]
        return {"r_data": (In, w), "r_stb": (Out, 1), "w_data": (Out, w), "w_stb": (Out, 1)}
    if cls == "wb":
        aw, dw, g, feat = key
        m = {"adr": (Out, aw), "dat_w": (Out, dw), "dat_r": (In, dw), "sel": (Out, dw // g),
             "cyc": (Out, 1), "stb": (Out, 1), "we": (Out, 1), "ack": (In, 1)}
        opt = {"err": (In, 1), "rty": (In, 1), "stall": (In, 1), "lock": (Out, 1), "cti": (Out, 3), "bte": (Out, 2)}
        for f in feat:
            m[f] = opt[f]
        return m
    if cls == "source":
        return {"i": (Out, 1), "trg": (In, 1)}
    return {"i": (In, 1), "o": (Out, 1), "oe": (Out, 1)}


# create() called from the outermost Python frame of its thread (what the top level of a script or
# a REPL is): a thread whose entry point is the builtin exec() running module-level code.
_TOP_CODE = compile("""
try:
    result = sig.create()
    named = sig.create(path=("p", "q"))
except BaseException as e:
    error = e
finally:
    done.set()
""", "<toplevel>", "exec")


def _create_at_top_level(sig):
    import _thread, threading
    g = {"sig": sig, "done": threading.Event()}
    _thread.start_new_thread(exec, (_TOP_CODE, g))
    if not g["done"].wait(900):
        raise RuntimeError("top-level create() did not finish")       # pragma: no cover
    return g


def _check_sig(spec, stats):
    cls = spec["cls"]
    stats.label("sig:" + cls)
    sa, ka = _make_sig(cls, spec["a"], spec.get("tamper"))
    sb, kb = _make_sig(cls, spec["b"])
    stats.label("features_tampered_after_construction", cls == "wb" and spec.get("tamper") is not None)
    same = ka == kb
    stats.label("pair_equal" if same else "pair_differs")
    stats.label("mixed_feature_spelling", stats_mixed[0])
    stats.label("features_one_shot_iterator", stats_mixed[1])
    stats_mixed[0] = stats_mixed[1] = False
    stats.label("width>256", cls in ("csr", "element") and max(spec["a"][0], spec["b"][0]) > 256)
    for x, y, kx, ky in ((sa, sb, ka, kb), (sb, sa, kb, ka)):
        got = (x == y)
        if bool(got) != same:
            raise Violation(f"C20/sig-eq/{cls}", f"{x!r} == {y!r} is {got}, parameters {kx} vs {ky}")
        if bool(x != y) == same:
            raise Violation(f"C20/sig-ne/{cls}", f"{x!r} != {y!r} inconsistent, parameters {kx} vs {ky}")
    if not (sa == sa):
        raise Violation(f"C20/sig-eq-self/{cls}", f"{sa!r} != itself")
    # a signature of another class (whatever its parameters), a generic signature with the same
    # members and non-signatures are never equal to it - in either order. (The flipped signature is
    # not compared: these classes compare parameters only, so sig == sig.flip() holds on the pinned
    # tree; the property speaks of defining parameters, not of flow.)
    others = [("csr", [4, 8]), ("csr", [max(1, spec["a"][0]) if cls == "wb" else 4, spec["a"][1] if cls == "wb" else 8]),
              ("wb", [spec["a"][0] if cls == "csr" and spec["a"][0] <= 32 else 4, spec["a"][1] if cls == "csr" and spec["a"][1] in (8, 16, 32, 64) else 8, None, [], False]),
              ("element", [8, "rw", False]), ("fieldport", [["u", 3], "rw", False]), ("source", ["level", False]), ("pin", [])]
    foreign = [(c, _make_sig(c, p_)[0]) for c, p_ in others if c != cls]
    foreign += [("generic", wiring.Signature(dict(sa.members))), ("none", None), ("int", 3), ("str", "x")]
    for c, o in foreign:
        for how, f in (("==", lambda: sa == o), ("reversed ==", lambda: o == sa), ("!=", lambda: not (sa != o))):
            try:
                r = f()
            except Exception as e:
                raise Violation(f"C20/sig-eq-foreign/{cls}", f"{sa!r} {how} <{c}: {o!r}> raised {type(e).__name__}: {e}")
            if c == "generic":
                continue          # comparing with a plain wiring.Signature must not fail; its verdict is not the property's business
            if r:
                raise Violation(f"C20/sig-eq-foreign/{cls}", f"{sa!r} {how} <{c}: {o!r}> holds")
    # copies carry the same defining parameters (and a signature that was flipped twice, used to
    # create interfaces, or asked for its members is still the same signature)
    import copy
    for how, c in (("copy.copy", copy.copy(sa)), ("copy.deepcopy", copy.deepcopy(sa)), ("flip().flip()", sa.flip().flip())):
        if not (c == sa) or not (sa == c) or (c != sa):
            raise Violation(f"C20/sig-eq-copy/{cls}", f"{how} of {sa!r} does not compare equal to the original (parameters {ka})")
        if bool(c == sb) != same:
            raise Violation(f"C20/sig-eq-copy/{cls}", f"{how} of {sa!r} == {sb!r} is {c == sb}, parameters {ka} vs {kb}")
        if {n: (m.flow, Shape.cast(m.shape).width) for n, m in c.members.items()} != _expect_members(cls, ka):
            raise Violation(f"C20/members/{cls}", f"{how} of {sa!r} has other members than the parameters {ka} imply")
    for s, k in ((sa, ka), (sb, kb)):
        iface = s.create()
        if not (iface.signature == s) or not (s == iface.signature):
            raise Violation(f"C20/create-roundtrip/{cls}", f"{s!r}.create().signature == original is False "
                            f"(parameters {k})")
        named = s.create(path=("p", "q"))
        if not (named.signature == s):
            raise Violation(f"C20/create-roundtrip/{cls}", f"create(path=...) lost parameters {k}")
        # array members: Amaranth passes paths with integer items to create()
        for apath in (("port", 0), ("bus", 3, "sub"), (0,)):
            try:
                arr = s.create(path=apath)
            except Exception as e:
                raise Violation(f"C20/create-array-path/{cls}", f"{s!r}.create(path={apath!r}) raised {type(e).__name__}: {e}")
            if not (arr.signature == s):
                raise Violation(f"C20/create-roundtrip/{cls}", f"create(path={apath!r}) lost parameters {k}")
        top = _create_at_top_level(s)
        if "error" in top:
            raise Violation(f"C20/create-toplevel/{cls}", f"{s!r}.create() called from the outermost frame (top level "
                            f"of a script) raised {type(top['error']).__name__}: {top['error']}")
        if not (top["result"].signature == s) or not (top["named"].signature == s):
            raise Violation(f"C20/create-roundtrip/{cls}", f"create() at top level lost parameters {k}")
        exp = _expect_members(cls, k)
        got = {n: (m.flow, Shape.cast(m.shape).width) for n, m in s.members.items()}
        if got != exp:
            raise Violation(f"C20/members/{cls}", f"members {got} expected {exp} for parameters {k}")
        for n, (_, w) in exp.items():
            sig_w = len(Value.cast(getattr(iface, n)))
            if sig_w != w:
                raise Violation(f"C20/create-width/{cls}", f"created interface member {n} has width {sig_w}, "
                                f"expected {w}")
        # the created interface carries the parameters as attributes
        if cls == "csr" and (iface.addr_width, iface.data_width) != k:
            raise Violation("C20/create-params/csr", f"{k}")
        if cls == "wb" and (iface.addr_width, iface.data_width, iface.granularity,
                            tuple(sorted(f.value for f in iface.features))) != k:
            raise Violation("C20/create-params/wb", f"{k}")
        if cls == "element" and (iface.width, iface.access.value) != k:
            raise Violation("C20/create-params/element", f"{k}")
        if cls == "source" and (iface.trigger.value,) != k:
            raise Violation("C20/create-params/source", f"{k}")
    stats.nontrivial = not same


def _check_port(spec, stats):
    try:
        built = components.build(spec)
    except Exception as e:
        if deliberate_refusal(e):
            stats.label("refused_at_construction")
            return
        # internal errors at construction are C19's business
        stats.label("construct_internal_error")
        return
    comp = built.comp
    stats.label("accepted:" + spec["cls"])
    for name, role, ctor in built.bus_ports:
        stats.label("wb_port_addr_width_0", role != "csr_target" and ctor["addr_width"] == 0)
        stats.label("port:" + role)
        port = getattr(comp, name)
        # the complementary interface is built from the parameters the *constructor was given*
        # (what the user knows), falling back to what the port reports where the constructor derives them
        if role == "csr_target":
            sig = csr.Signature(addr_width=ctor.get("addr_width", port.addr_width), data_width=ctor["data_width"])
            flow = In
        else:
            sig = wishbone.Signature(addr_width=ctor["addr_width"], data_width=ctor["data_width"],
                                     granularity=ctor["granularity"], features=ctor["features"])
            flow = In if role == "wb_target" else Out
        m = Module()
        try:
            if flow == In:
                initiator = sig.create(path=("initiator",))
                wiring.connect(m, initiator, port)
            else:
                target = sig.create(path=("target",))
                wiring.connect(m, port, wiring.flipped(target))
        except wiring.ConnectionError as e:
            raise Violation(f"C20/connect/{spec['cls']}", f"{name} ({role}): {e}")
    stats.nontrivial = bool(built.bus_ports)


def check(spec, stats):
    if spec["kind"] == "sig":
        _check_sig(spec, stats)
    else:
        _check_port(spec, stats)
