"""Runner shared by every property check.

    python -m vlib.runner <ID> <quick|thorough>
    python -m vlib.runner --replay <file>

A property module (vlib/props/<ID>.py) provides

    RULE            str   how cases are generated and what makes one non-trivial
    BUDGET          {"quick": (workers, examples_per_worker), "thorough": (...)}
    strategy(tier)  Hypothesis strategy producing a JSON-able spec
    check(spec, st) runs the real code against the oracle, raises Violation; ``st`` is a Stats
                    object (``st.label(name)``, ``st.nontrivial = True``, ``st.add(name, n)``)
    pinned()        optional: list of (name, spec) always executed first
    exhaustive(tier) optional: list of (name, list_of_specs) enumerated completely
    ESSENTIAL       optional: labels that must be hit at least once, else the run is a harness
                    failure (exit 2), never a violation
    ASSUMPTIONS     optional: list of str copied into the evidence file

Exit codes: 0 held on everything explored; 1 violation (with VIOLATION line); 2 harness error.
"""
import os, sys, json, time, hashlib, traceback, multiprocessing, importlib, signal

HERE = os.path.dirname(os.path.dirname(os.path.abspath(__file__)))
REPO = os.environ.get("VERIF_REPO", "/repo")
DEPS = os.path.join(HERE, ".deps")


def _setup_path():
    if os.path.isdir(DEPS) and DEPS not in sys.path:
        sys.path.insert(1, DEPS)
    if REPO not in sys.path:
        sys.path.insert(0, REPO)
    if HERE not in sys.path:
        sys.path.insert(0, HERE)


_setup_path()

from vlib.common import Violation, Stats, canon, spec_hash, classify_exception  # noqa: E402


WALL = {"quick": 600.0, "thorough": 5400.0}
SHRINK_WALL = {"quick": 90.0, "thorough": 600.0}


def load_prop(pid):
    return importlib.import_module(f"vlib.props.{pid}")


def check_repo_import():
    import amaranth_soc
    path = os.path.realpath(amaranth_soc.__file__)
    if not path.startswith(os.path.realpath(REPO) + os.sep):
        raise RuntimeError(f"amaranth_soc imported from {path}, expected under {REPO}")


# ------------------------------------------------------------------------------------------
# executing one spec

FRAMEWORK_RULE = (" [Framework-wide dimensions, where the check simulates: 'pre' throw-away elaborations before the "
                  "simulated one; 'companions' (labels companion:twin/other/cross) - further cases constructed first and "
                  "then simulated in the same design, each judged by its own oracle; 'prelude' - garbage on all inputs, then "
                  "a domain reset, before the testbench starts; 'reset_less_domain'. Companion cases do not count towards "
                  "evaluations, classes or distinct_nontrivial.]")


def run_one(mod, spec, stats):
    """Run check on one spec. Returns None (held) or (bucket, detail) for a violation.
    Raises for harness errors."""
    try:
        from . import sim
        sim.run_case(mod, spec, stats, load_prop)
        return None
    except Violation as v:
        return (v.bucket, v.detail)
    except RecursionError as e:
        cls = classify_exception(e)
        if cls is not None:
            return cls
        raise
    except Exception as e:  # crash inside the code under test on an input the check deems legal
        cls = classify_exception(e)
        if cls is not None:
            return cls
        raise


# ------------------------------------------------------------------------------------------
# worker

def _derive_seed(seed, pid, i, salt=""):
    h = hashlib.sha256(f"{seed}/{pid}/{i}/{salt}".encode()).digest()
    return int.from_bytes(h[:8], "big")


def _worker(args):
    pid, tier, seed, idx, nworkers, nexamples, wall, only_bucket, shrink_out = args
    _setup_path()
    import hypothesis
    from hypothesis import given, settings, HealthCheck, Phase
    mod = load_prop(pid)
    stats = Stats()
    buckets = {}
    nontrivial = set()
    samples = []
    t0 = time.time()
    res = {"idx": idx, "evaluations": 0, "skipped_budget": 0, "harness_error": None,
           "exhaustive": {}}

    def handle(spec, origin):
        stats.begin()
        r = run_one(mod, spec, stats)
        res["evaluations"] += 1
        if stats.nontrivial:
            h = spec_hash(spec)
            if h not in nontrivial:
                nontrivial.add(h)
                if len(samples) < 3:
                    samples.append(spec)
        stats.commit()
        if r is not None:
            b = buckets.setdefault(r[0], {"count": 0, "spec": spec, "detail": r[1],
                                          "origin": origin, "worker": idx})
            b["count"] += 1
        return r

    try:
        # exhaustive sub-domains, striped over the workers
        if only_bucket is None and hasattr(mod, "exhaustive"):
            for name, specs in mod.exhaustive(tier):
                n = 0
                for k, spec in enumerate(specs):
                    if k % nworkers != idx:
                        continue
                    handle(spec, f"exhaustive:{name}")
                    n += 1
                res["exhaustive"][name] = n

        strat = mod.strategy(tier)
        phases = [Phase.generate] if only_bucket is None else [Phase.generate, Phase.shrink]
        best = {"spec": None, "size": None, "detail": None}

        @hypothesis.seed(_derive_seed(seed, pid, idx))
        @settings(max_examples=nexamples, database=None, deadline=None, derandomize=False,
                  report_multiple_bugs=False, phases=phases, print_blob=False,
                  suppress_health_check=list(HealthCheck))
        @given(strat)
        def test(spec):
            if time.time() - t0 > wall:
                res["skipped_budget"] += 1
                return
            if only_bucket is None:
                handle(spec, "generated")
            else:
                st = Stats(); st.begin()
                r = run_one(mod, spec, st)
                res["evaluations"] += 1
                if r is not None and r[0] == only_bucket:
                    size = len(canon(spec))
                    if best["size"] is None or size <= best["size"]:
                        best.update(spec=spec, size=size, detail=r[1])
                        if shrink_out:
                            tmp = shrink_out + ".tmp"
                            with open(tmp, "w") as f:
                                json.dump({"spec": spec, "detail": r[1]}, f)
                            os.replace(tmp, shrink_out)
                    raise AssertionError("bucket reproduced")

        if nexamples > 0:
            try:
                test()
            except AssertionError:
                if only_bucket is None:
                    raise
        res["best"] = best
    except BaseException as e:
        res["harness_error"] = "".join(traceback.format_exception(type(e), e, e.__traceback__))[-6000:]
    res["stats"] = stats.totals
    res["buckets"] = buckets
    res["nontrivial"] = nontrivial
    res["samples"] = samples
    res["wall"] = time.time() - t0
    return res


# ------------------------------------------------------------------------------------------
# known findings

def load_known():
    p = os.path.join(HERE, "known_findings.json")
    if not os.path.exists(p):
        return []
    with open(p) as f:
        return json.load(f).get("findings", [])


def match_known(known, pid, bucket):
    for k in known:
        if k.get("property") == pid and k.get("status") == "open":
            if bucket in k.get("buckets", []) or any(bucket.startswith(p) for p in k.get("bucket_prefixes", [])):
                return k
    return None


# ------------------------------------------------------------------------------------------

def _trim(obj, limit=4000):
    s = canon(obj)
    if len(s) <= limit:
        return obj
    return {"truncated_json": s[:limit] + "...", "full_length": len(s)}


def write_replay(pid, bucket, spec, detail, origin):
    d = os.path.join(HERE, "findings", pid)
    os.makedirs(d, exist_ok=True)
    h = hashlib.sha256(bucket.encode()).hexdigest()[:12]
    path = os.path.join(d, f"{h}.json")
    with open(path, "w") as f:
        json.dump({"property": pid, "bucket": bucket, "detail": detail, "origin": origin,
                   "spec": spec}, f, indent=1, sort_keys=True)
    return path


def main_check(pid, tier):
    t_start = time.time()
    os.environ["VERIF_TIER_EFFECTIVE"] = tier
    check_repo_import()
    mod = load_prop(pid)
    seed = int(os.environ.get("VERIF_SEED", "1"))
    nworkers, nexamples = mod.BUDGET[tier]
    scale = float(os.environ.get("VERIF_SCALE", "1"))
    nexamples = max(1, int(nexamples * scale))
    ncpu = os.cpu_count() or 1
    planned = nworkers
    nworkers = max(1, min(nworkers, ncpu))
    if nworkers < planned:
        # fewer cores than planned: keep the total number of cases (each worker does more)
        nexamples = -(-nexamples * planned // nworkers)
    known = load_known()
    wall = WALL[tier]

    violations = {}   # bucket -> dict(spec, detail, origin, count)
    known_hits = {}   # known id -> (entry, count)
    parent_stats = Stats()
    evaluations = 0
    nontrivial = set()
    samples = []

    def record(bucket, spec, detail, origin, count=1):
        k = match_known(known, pid, bucket)
        if k is not None:
            e = known_hits.setdefault(k["id"], [k, 0])
            e[1] += count
            return
        v = violations.setdefault(bucket, {"spec": spec, "detail": detail, "origin": origin,
                                           "count": 0, "worker": None})
        v["count"] += count

    # 1. regression tier: pinned specs and committed replays
    regress = []
    if hasattr(mod, "pinned"):
        regress += [(f"pinned:{n}", s) for n, s in mod.pinned()]
    rdir = os.path.join(HERE, "replays", pid)
    if os.path.isdir(rdir):
        for fn in sorted(os.listdir(rdir)):
            if fn.endswith(".json"):
                with open(os.path.join(rdir, fn)) as f:
                    regress.append((f"replay:{fn}", json.load(f)["spec"]))
    for origin, spec in regress:
        parent_stats.begin()
        r = run_one(mod, spec, parent_stats)
        evaluations += 1
        if parent_stats.nontrivial:
            nontrivial.add(spec_hash(spec))
        parent_stats.commit()
        parent_stats.totals["regression_specs"] = parent_stats.totals.get("regression_specs", 0) + 1
        if r is not None:
            record(r[0], spec, r[1], origin)

    # 2. collect
    ctx = multiprocessing.get_context("fork")
    jobs = [(pid, tier, seed, i, nworkers, nexamples, wall, None, None) for i in range(nworkers)]
    with ctx.Pool(nworkers) as pool:
        results = pool.map(_worker, jobs, chunksize=1)

    harness_errors = [r["harness_error"] for r in results if r["harness_error"]]
    totals = dict(parent_stats.totals)
    exhaustive = {}
    skipped = 0
    for r in results:
        evaluations += r["evaluations"]
        skipped += r["skipped_budget"]
        nontrivial |= r["nontrivial"]
        for k, v in r["stats"].items():
            totals[k] = totals.get(k, 0) + v
        for k, v in r["exhaustive"].items():
            exhaustive[k] = exhaustive.get(k, 0) + v
        for s in r["samples"]:
            if len(samples) < 5:
                samples.append(s)
        for b, info in r["buckets"].items():
            k = match_known(known, pid, b)
            if k is not None:
                e = known_hits.setdefault(k["id"], [k, 0])
                e[1] += info["count"]
                continue
            v = violations.get(b)
            if v is None:
                violations[b] = dict(info)
            else:
                v["count"] += info["count"]

    # 3. shrink new buckets found by generation (one process per bucket, in parallel, bounded wall clock)
    out_lines = []
    procs = {}
    if os.environ.get("VERIF_NO_SHRINK") != "1":
        todo = [(b, info) for b, info in sorted(violations.items()) if info.get("origin") == "generated"]
        os.makedirs(os.path.join(HERE, "findings"), exist_ok=True)
        for n, (b, info) in enumerate(todo[:12]):
            tmpf = os.path.join(HERE, "findings", f".shrink-{os.getpid()}-{n}.json")
            job = (pid, tier, seed, info["worker"], nworkers, nexamples, 1e9, b, tmpf)
            p = ctx.Process(target=_worker, args=(job,))
            p.start()
            procs[b] = (p, tmpf)
        deadline = time.time() + SHRINK_WALL[tier]
        for b, (p, tmpf) in procs.items():
            p.join(max(0.1, deadline - time.time()))
            if p.is_alive():
                p.terminate(); p.join(5)
                if p.is_alive():
                    p.kill(); p.join()
    for b, info in sorted(violations.items()):
        spec, detail = info["spec"], info["detail"]
        if b in procs:
            tmpf = procs[b][1]
            if os.path.exists(tmpf):
                try:
                    with open(tmpf) as f:
                        d = json.load(f)
                    if len(canon(d["spec"])) <= len(canon(spec)):
                        spec, detail = d["spec"], d["detail"]
                except Exception:
                    pass
                os.unlink(tmpf)
        path = write_replay(pid, b, spec, detail, info.get("origin"))
        out_lines.append(f"VIOLATION property={pid} replay={path}")
        print(f"  bucket: {b}\n  detail: {str(detail)[:1500]}\n  occurrences: {info['count']}", flush=True)

    # known findings: report each open entry that still reproduces
    for kid, (k, cnt) in sorted(known_hits.items()):
        print(f"KNOWN-FINDING: property={pid} {k['what']} [id={kid}, occurrences this run: {cnt}]")

    # vacuity guards
    vacuity = []
    missing_labels = [lab for lab in getattr(mod, "ESSENTIAL", []) if totals.get(lab, 0) == 0]
    if not violations and not skipped and scale >= 1:
        # only a complete, unscaled run is expected to reach every essential class
        for lab in missing_labels:
            vacuity.append(f"essential label {lab!r} never hit")
    if len(nontrivial) < 2 and not violations:
        vacuity.append(f"only {len(nontrivial)} distinct non-trivial cases")

    wall_s = time.time() - t_start
    ev = {
        "property_id": pid, "tier": tier, "seed": seed, "level": "exploration",
        "wall_s": round(wall_s, 2), "violations": len(violations),
        "assumptions": list(getattr(mod, "ASSUMPTIONS", [])),
        "coverage": {
            "evaluations": evaluations,
            "distinct_nontrivial": len(nontrivial),
            "rule": mod.RULE + FRAMEWORK_RULE,
            "samples": [_trim(s) for s in samples] or ["<none>"],
            "classes": {k: totals[k] for k in sorted(totals)},
            "workers": nworkers,
            "examples_per_worker": nexamples,
            "skipped_over_wall_budget": skipped,
            "excluded_known": {kid: cnt for kid, (k, cnt) in known_hits.items()},
            "exhaustive_parts": exhaustive,
            "exhaustive": False,
            "violation_buckets": sorted(violations),
            "essential_classes_missing": missing_labels,
        },
    }
    if hasattr(mod, "evidence_extra"):
        ev["coverage"].update(mod.evidence_extra(tier, totals))
    evdir = os.environ.get("VERIF_EVIDENCE_DIR") or os.path.join(HERE, "evidence")
    os.makedirs(evdir, exist_ok=True)
    with open(os.path.join(evdir, f"{pid}.json"), "w") as f:
        json.dump(ev, f, indent=1, sort_keys=True)
        f.write("\n")

    for line in out_lines:
        print(line, flush=True)
    print(f"[{pid} {tier} seed={seed}] evaluations={evaluations} nontrivial={len(nontrivial)} "
          f"violations={len(violations)} known={len(known_hits)} skipped={skipped} wall={wall_s:.1f}s")
    if violations:
        return 1
    if harness_errors:
        print("HARNESS-ERROR (no verdict):\n" + harness_errors[0], file=sys.stderr)
        return 2
    if vacuity:
        print("HARNESS-ERROR (vacuous run): " + "; ".join(vacuity), file=sys.stderr)
        return 2
    return 0


def main_replay(path):
    check_repo_import()
    with open(path) as f:
        d = json.load(f)
    pid = d["property"]
    mod = load_prop(pid)
    st = Stats(); st.begin()
    r = run_one(mod, d["spec"], st)
    if r is None:
        print(f"replay {path}: property {pid} held")
        return 0
    known = load_known()
    k = match_known(known, pid, r[0])
    print(f"  bucket: {r[0]}\n  detail: {str(r[1])[:3000]}")
    if k is not None:
        print(f"KNOWN-FINDING: property={pid} {k['what']} [id={k['id']}]")
        return 0
    print(f"VIOLATION property={pid} replay={os.path.abspath(path)}")
    return 1


def main(argv):
    if len(argv) >= 2 and argv[0] == "--replay":
        return main_replay(argv[1])
    if len(argv) != 2 or argv[1] not in ("quick", "thorough"):
        print(__doc__)
        return 2
    try:
        return main_check(argv[0], argv[1])
    except Exception:
        traceback.print_exc()
        print("HARNESS-ERROR (no verdict)", file=sys.stderr)
        return 2


if __name__ == "__main__":
    sys.exit(main(sys.argv[1:]))
