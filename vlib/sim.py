"""Lock-step simulation helpers (Amaranth Python simulator)."""
import warnings
from amaranth import Module, Signal, Value
from amaranth.hdl import Fragment
from amaranth.sim import Simulator
try:
    from amaranth.hdl import UnusedElaboratable
except ImportError:  # pragma: no cover
    from amaranth.hdl._ir import UnusedElaboratable

warnings.simplefilter("ignore", category=UnusedElaboratable)


def wrap(*duts, extra=None):
    """Top module holding the DUT(s) and one dummy register, so that a ``sync`` domain exists even
    for purely combinational designs."""
    m = Module()
    for i, d in enumerate(duts):
        m.submodules[f"dut{i}"] = d
    dummy = Signal(name="verif_dummy")
    m.d.sync += dummy.eq(~dummy)
    if extra is not None:
        extra(m)
    return m


import threading

_tls = threading.local()       # .pre: number of throw-away elaborations before the simulated one (set per case)


def set_pre(spec):
    """Cases carry 'pre' in {0,1,2}: the design under test is elaborated that many times *before* the
    elaboration the simulator uses, so behaviour is also checked on a second/third elaboration of
    the same instances (simulate-then-synthesise in the other order)."""
    _tls.pre = int(spec.get("pre", 0)) if isinstance(spec, dict) else 0
    _tls.prelude = spec.get("prelude") if isinstance(spec, dict) else None
    _tls.reset_less = bool(spec.get("reset_less_domain")) if isinstance(spec, dict) else False
    return _tls.pre


def simulate(top, tb):
    """Run the async testbench ``tb(ctx)`` against ``top`` with a clock on ``sync``. Inside a
    companion group (see ``run_group``) the request is handed to the coordinator instead, which
    simulates the designs of all cases of the group together."""
    job = getattr(_tls, "job", None)
    prelude = getattr(_tls, "prelude", None)
    if job is not None:
        # elaborate once on the case's own account first: a refusal at elaboration belongs to the
        # case that asked for it, and is raised where its check expects it
        Fragment.get(top, None)
        return job.group.request(job, top, tb, getattr(_tls, "pre", 0), prelude, getattr(_tls, "reset_less", False))
    if prelude or getattr(_tls, "reset_less", False):
        return _simulate_together([_Solo(top, tb, getattr(_tls, "pre", 0), prelude, getattr(_tls, "reset_less", False))])
    for _ in range(getattr(_tls, "pre", 0)):
        Fragment.get(top, None)
    sim = Simulator(top)
    sim.add_clock(1e-6)
    sim.add_testbench(tb)
    sim.run()


class _Solo:
    index, delay = 0, 0

    def __init__(self, *req):
        self.req = req


# ------------------------------------------------------------------------------------------
# prelude: before the testbench proper starts, the inputs of the design (every signal it uses but
# does not drive) carry pseudo-random garbage for some cycles, which is held while the clock domain
# is reset for one cycle. A synchronous reset returns a design to its power-on state (memories
# excepted: checks over memories do not ask for a prelude), so the case must then behave exactly
# as it does from power-on. With 'flush' the inputs return to their initial values that many cycles
# before the reset (for deliberately reset-less synchroniser chains).

def undriven_inputs(top):
    from amaranth.hdl._ast import SignalSet
    from amaranth.hdl._mem import MemoryInstance
    frag = Fragment.get(top, None)
    used, driven = SignalSet(), SignalSet()
    todo = [frag]
    try:
        return _walk(todo, used, driven, MemoryInstance)
    except NotImplementedError:
        return []       # a design that refers to ClockSignal()/ResetSignal(): no garbage phase, just the reset


def _walk(todo, used, driven, MemoryInstance):
    while todo:
        f = todo.pop()
        for _domain, stmts in f.statements.items():
            for stmt in stmts:
                driven.update(stmt._lhs_signals())
                used.update(stmt._rhs_signals())
        if isinstance(f, MemoryInstance):
            for rp in f._read_ports:
                driven.update(rp._data._rhs_signals())
                used.update(rp._addr._rhs_signals()); used.update(rp._en._rhs_signals())
            for wp in f._write_ports:
                for v in (wp._addr, wp._data, wp._en):
                    used.update(v._rhs_signals())
        for sub, _name, _loc in f.subfragments:
            todo.append(sub)
    return sorted((s for s in used if s not in driven), key=lambda s: (s.name, len(s)))


def _garbage(seed, k, t, sig):
    from .csrmodel import hval
    from amaranth import Const
    return Const(hval(seed, f"prelude{k}", t, len(sig)), sig.shape()).value


# ------------------------------------------------------------------------------------------
# companion groups: several independent cases (each with its own oracle) share ONE design.
# Components of a library must not influence each other through anything but their ports, so on
# a correct tree every case of a group behaves exactly as it does alone. Each case runs in its own
# thread, but strictly one thread at a time (hand-over by events): the threads are coroutines, the
# order of every construction, elaboration and simulation step is a pure function of the spec.

threading.stack_size(256 * 1024 * 1024)


class _Abort(BaseException):
    """Unwinds a case whose group was aborted by a failure elsewhere."""


class _Job:
    def __init__(self, group, index, fn, delay):
        self.group, self.index, self.fn, self.delay = group, index, fn, delay
        self.wake = threading.Event()
        self.parked = threading.Event()     # set when the thread waits in simulate() or has ended
        self.done = False
        self.exc = None
        self.req = None
        self.abort = False

    def run(self):
        _tls.job = self
        try:
            self.wake.wait(); self.wake.clear()
            if not self.abort:
                self.fn()
        except _Abort:
            pass
        except BaseException as e:
            self.exc = e
        finally:
            _tls.job = None
            self.done = True
            self.parked.set()


class _Group:
    def __init__(self):
        self.jobs = []

    def request(self, job, top, tb, pre, prelude=None, reset_less=False):
        job.req = (top, tb, pre, prelude, reset_less)
        job.parked.set()
        job.wake.wait(); job.wake.clear()
        if job.abort:
            raise _Abort()

    def resume(self, job):
        job.parked.clear()
        job.wake.set()
        job.parked.wait()


def run_group(fns, delays, order):
    """``fns``: one callable per case (first = the case proper, others = companions). Each runs up to
    its first ``simulate`` call (so all components are *constructed* before any is elaborated, in the
    order given), then the requests are simulated together in one top-level design, companions'
    testbenches starting ``delays[k]`` clock cycles late; ``order`` permutes the submodule order.
    Repeats until every case has finished. Raises the first failure (tagged with ``.job_index``)."""
    g = _Group()
    jobs = [_Job(g, k, fn, delays[k]) for k, fn in enumerate(fns)]
    threads = [threading.Thread(target=j.run, daemon=True) for j in jobs]
    for t in threads:
        t.start()
    failure = None
    try:
        for j in jobs:
            g.resume(j)
        while True:
            for j in jobs:
                if j.done and j.exc is not None and failure is None:
                    failure = j.exc
                    failure.job_index = j.index
            if failure is not None:
                break
            reqs = [j for j in jobs if not j.done and j.req is not None]
            if not reqs:
                break
            try:
                _simulate_together(sorted(reqs, key=lambda j: order.index(j.index) if j.index in order else j.index))
            except BaseException as e:
                failure = e
                break
            for j in reqs:
                j.req = None
            for j in reqs:
                g.resume(j)
    finally:
        for j in jobs:
            if not j.done:
                j.abort = True
                j.wake.set()
        for t in threads:
            t.join()
    if failure is not None:
        raise failure


def _simulate_together(jobs):
    from amaranth import ClockDomain
    top = Module()
    cd = None
    if any(j.req[3] for j in jobs):
        top.domains.sync = cd = ClockDomain()
    elif any(len(j.req) > 4 and j.req[4] for j in jobs):
        # a clock domain without reset (components must not depend on there being one)
        top.domains.sync = ClockDomain(reset_less=True)
    for j in jobs:
        top.submodules[f"case{j.index}"] = j.req[0]
    for _ in range(max(j.req[2] for j in jobs)):
        Fragment.get(top, None)
    plans = {}
    for j in jobs:
        if j.req[3]:
            p = j.req[3]
            plans[j.index] = (undriven_inputs(j.req[0]), int(p["cycles"]), int(p.get("flush", 0)), p["dseed"])
    # the reset edge is the tick number ``n``; everything proper starts after tick n+1
    n = max((c + f for _, c, f, _ in plans.values()), default=0)
    sim = Simulator(top)
    sim.add_clock(1e-6)
    if plans:
        async def prelude(ctx):
            for t in range(n):
                for k, (sigs, c, f, seed) in plans.items():
                    if n - f - c <= t < n - f:
                        for i, sig in enumerate(sigs):
                            ctx.set(sig, _garbage(seed, i, t, sig))
                    elif t == n - f:
                        for sig in sigs:
                            ctx.set(sig, sig.init)
                await ctx.tick()
            ctx.set(cd.rst, 1)
            await ctx.tick()
            ctx.set(cd.rst, 0)
        sim.add_testbench(prelude)
    for j in jobs:
        sim.add_testbench(_tagged(j, (n + 1) if plans else 0, plans.get(j.index, ((), 0, 0, 0))[0]))
    sim.run()


def _tagged(job, start, inputs):
    tb, delay = job.req[1], job.delay
    async def run(ctx):
        for _ in range(start):
            await ctx.tick()
        for sig in inputs:
            ctx.set(sig, sig.init)
        for _ in range(delay):
            await ctx.tick()
        try:
            await tb(ctx)
        except BaseException as e:
            if not hasattr(e, "job_index"):
                e.job_index = job.index
            raise
    return run


def raw(sig):
    """Raw (unsigned, non-enum) view of a signal or value-castable."""
    return Value.cast(sig).as_unsigned() if Value.cast(sig).shape().signed else Value.cast(sig)


def mask(w):
    return (1 << w) - 1


def reseeded(spec, salt=1000003):
    """Deep copy of a spec with every 'dseed' (the seed of all data values) changed: same layout,
    same schedule shape, different data."""
    if isinstance(spec, dict):
        return {k: ((v + salt) if k == "dseed" and isinstance(v, int) else reseeded(v, salt)) for k, v in spec.items()}
    if isinstance(spec, list):
        return [reseeded(v, salt) for v in spec]
    return spec


def run_case(mod, spec, stats, load_prop=None):
    """Entry point used by the runner: a plain case is ``mod.check(spec, stats)``; a case carrying
    'companions' runs as a group. A companion is {"kind": "twin"|"other"|"cross", "delay": d,
    "first": bool, "reseed": bool, ["spec": ...], ["prop": id]}:
      twin  - the same spec again (optionally with other data values): two identically configured
              instances in one design
      other - an independent spec of the same property
      cross - a spec of another property (a different library component next to this one)."""
    comps = spec.get("companions") if isinstance(spec, dict) else None
    if not comps:
        return mod.check(spec, stats)
    from .common import Stats
    base = {k: v for k, v in spec.items() if k != "companions"}
    fns, delays, order = [lambda: mod.check(base, stats)], [0], [0]
    for c in comps:
        if c["kind"] == "twin":
            cs, cm = (reseeded(base) if c.get("reseed") else base), mod
        elif c["kind"] == "other":
            cs, cm = c["spec"], mod
        else:
            cs, cm = c["spec"], load_prop(c["prop"])
        k = len(fns)
        side = Stats(); side.begin()     # companions do not count towards this property's classes
        fns.append((lambda cm=cm, cs=cs, side=side: cm.check(cs, side)))
        delays.append(int(c.get("delay", 0)))
        if c.get("first"):
            order.insert(0, k)
        else:
            order.append(k)
        stats.label("companion:" + c["kind"])
    try:
        run_group(fns, delays, order)
    except BaseException as e:
        # a failure of a companion is a failure of that companion's own oracle; keep the buckets
        # apart from those of the case proper
        from .common import Violation
        k = getattr(e, "job_index", 0)
        if k and isinstance(e, Violation):
            raise Violation("companion/" + e.bucket, f"[companion {k}: {comps[k-1]['kind']}] {e.detail}") from e
        raise
