"""Lock-step simulation helpers (Amaranth Python simulator)."""
import warnings
from amaranth import Module, Signal, Value
from amaranth.hdl import Fragment
from amaranth.sim import Simulator
try:
    from amaranth.hdl import UnusedElaboratable
except ImportError:  # pragma: no cover
    from amaranth.hdl._ir import UnusedElaboratable

warnings.simplefilter("ignore", category=UnusedElaboratable)


def wrap(*duts, extra=None):
    """Top module holding the DUT(s) and one dummy register, so that a ``sync`` domain exists even
    for purely combinational designs."""
    m = Module()
    for i, d in enumerate(duts):
        m.submodules[f"dut{i}"] = d
    dummy = Signal(name="verif_dummy")
    m.d.sync += dummy.eq(~dummy)
    if extra is not None:
        extra(m)
    return m


def simulate(top, tb):
    """Run the async testbench ``tb(ctx)`` against ``top`` with a clock on ``sync``."""
    sim = Simulator(top)
    sim.add_clock(1e-6)
    sim.add_testbench(tb)
    sim.run()


def raw(sig):
    """Raw (unsigned, non-enum) view of a signal or value-castable."""
    return Value.cast(sig).as_unsigned() if Value.cast(sig).shape().signed else Value.cast(sig)


def mask(w):
    return (1 << w) - 1
