"""Lock-step simulation helpers (Amaranth Python simulator)."""
import warnings
from amaranth import Module, Signal, Value
from amaranth.hdl import Fragment
from amaranth.sim import Simulator
try:
    from amaranth.hdl import UnusedElaboratable
except ImportError:  # pragma: no cover
    from amaranth.hdl._ir import UnusedElaboratable

warnings.simplefilter("ignore", category=UnusedElaboratable)


def wrap(*duts, extra=None):
    """Top module holding the DUT(s) and one dummy register, so that a ``sync`` domain exists even
    for purely combinational designs."""
    m = Module()
    for i, d in enumerate(duts):
        m.submodules[f"dut{i}"] = d
    dummy = Signal(name="verif_dummy")
    m.d.sync += dummy.eq(~dummy)
    if extra is not None:
        extra(m)
    return m


PRE = [0]      # number of throw-away elaborations before the one that is simulated (set per case)


def set_pre(spec):
    """Cases carry 'pre' in {0,1,2}: the design under test is elaborated that many times *before* the
    elaboration the simulator uses, so behaviour is also checked on a second/third elaboration of
    the same instances (simulate-then-synthesise in the other order)."""
    PRE[0] = int(spec.get("pre", 0)) if isinstance(spec, dict) else 0
    return PRE[0]


def simulate(top, tb):
    """Run the async testbench ``tb(ctx)`` against ``top`` with a clock on ``sync``."""
    for _ in range(PRE[0]):
        Fragment.get(top, None)
    sim = Simulator(top)
    sim.add_clock(1e-6)
    sim.add_testbench(tb)
    sim.run()


def raw(sig):
    """Raw (unsigned, non-enum) view of a signal or value-castable."""
    return Value.cast(sig).as_unsigned() if Value.cast(sig).shape().signed else Value.cast(sig)


def mask(w):
    return (1 << w) - 1
