"""Transfer-level oracle for the Wishbone-to-CSR bridge (C10, C01): a protocol-abiding initiator
schedule is turned into per-cycle Wishbone inputs and, independently of the bridge's state machine,
into what the property promises: one CSR access per selected granule at t+i, ack at t+ratio+1."""
from hypothesis import strategies as st

from vlib.csrmodel import hval


def schedule_strategy(max_items=12):
    xfer = st.fixed_dictionaries({
        "kind": st.just("xfer"), "adr": st.integers(0, 1 << 16), "sel": st.integers(0, 255),
        "selmode": st.sampled_from(["all", "all", "rand", "rand", "none", "one"]),
        "we": st.booleans(), "then": st.sampled_from(["next", "next", "drop_stb", "drop_both"]),
    })
    idle = st.fixed_dictionaries({"kind": st.just("idle"), "n": st.integers(1, 3),
                                  "mode": st.sampled_from(["idle", "cyc_only", "stb_only"])})
    from vlib.gens import weighted
    return st.lists(weighted((4, xfer), (1, idle)), min_size=1, max_size=max_items)


def flatten(items, ratio, wb_aw, wb_dw, seed, addr_pool=None):
    """-> (cycles, transfers). cycles[t] = dict(cyc, stb, we, adr, sel, dat_w, exp_ack, csr) where csr
    is None or (addr, r_stb, w_stb, w_data); transfers = [dict(start, adr, sel, we, dat_w, ack)]."""
    g = wb_dw // ratio
    cycles, transfers = [], []

    def idle(cyc=0, stb=0):
        return {"cyc": cyc, "stb": stb, "we": hval(seed, "iw", len(cycles), 1), "adr": hval(seed, "ia", len(cycles), wb_aw),
                "sel": hval(seed, "is", len(cycles), ratio), "dat_w": hval(seed, "id", len(cycles), wb_dw),
                "exp_ack": 0, "csr": None}
    for n, it in enumerate(items):
        if it["kind"] == "idle":
            for _ in range(it["n"]):
                cycles.append(idle(cyc=int(it["mode"] == "cyc_only"), stb=int(it["mode"] == "stb_only")))
            continue
        if addr_pool:
            adr = addr_pool[it["adr"] % len(addr_pool)]
        else:
            adr = it["adr"] & ((1 << wb_aw) - 1)
        full = (1 << ratio) - 1
        sel = {"all": full, "none": 0, "one": 1 << (it["sel"] % ratio), "rand": it["sel"] & full}[it["selmode"]]
        we = int(it["we"])
        dat_w = hval(seed, "xd", n, wb_dw)
        t0 = len(cycles)
        for i in range(ratio + 2):
            c = {"cyc": 1, "stb": 1, "we": we, "adr": adr, "sel": sel, "dat_w": dat_w, "exp_ack": int(i == ratio + 1),
                 "csr": None}
            if i < ratio and (sel >> i) & 1:
                c["csr"] = (adr * ratio + i, int(not we), int(we), (dat_w >> (i * g)) & ((1 << g) - 1))
            cycles.append(c)
        transfers.append({"start": t0, "adr": adr, "sel": sel, "we": we, "dat_w": dat_w, "ack": t0 + ratio + 1,
                          "then": it["then"]})
        if it["then"] == "drop_stb":
            cycles.append(idle(cyc=1, stb=0))
        elif it["then"] == "drop_both":
            cycles.append(idle())
    cycles.append(idle())
    cycles.append(idle())
    return cycles, transfers
